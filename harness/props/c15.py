"""C15 — SparseMerkleProof stays in sync from streamed updates alone."""
import random

from .. import common as C
from ..common import Exc, cb, clist, cnat, cobs, copt
from . import c14

IMPORTS = c14.IMPORTS
CASE_T = "nat * bytes * list mop * bytes * list pop"
RULE = ("key sizes 1,2 (full streams in the model) and 32 (short streams); tracked key fixed after a prior history; update keys equal to it "
        "or differing from it first at every bit position; repeated writes, deletions, blank values; node-hash lists truncated to every "
        "length class (0, below, at, just above the first differing bit, full). non-trivial = the stream contains an update to the "
        "tracked key, one to another key, a delete, an accepted truncated list and a rejected one")


def first_diff_bit(a, b):
    x = int.from_bytes(a, "big") ^ int.from_bytes(b, "big")
    if x == 0:
        return None
    return len(a) * 8 - x.bit_length()


def gen_case(rng, tier, ks=None):
    if ks is None:
        ks = rng.choice([1, 1, 2])
    d = rng.choice([b"", b"", b"d", b"\x00" * 32])
    key = bytes(rng.randrange(256) for _ in range(ks))
    if rng.random() < 0.2:
        key = rng.choice([b"\x00" * ks, b"\xff" * ks])      # extreme paths (leading zero bytes vanish in the integer form)
    prior = []
    for _ in range(rng.randint(0, 3)):
        k = key if rng.random() < 0.3 else bytes(rng.randrange(256) for _ in range(ks))
        prior.append(("set", k, rng.choice([b"p", b"q" * 33])))
    n = (rng.randint(1, 3) if ks >= 20 else (rng.randint(2, 4) if ks >= 7 else (rng.randint(2, 7) if tier == "quick" else rng.randint(4, 20))))
    stream = []
    for _ in range(n):
        r = rng.random()
        if r < 0.25:
            k = key
        elif r < 0.45:
            # differs from the tracked key at `bit` and in EVERY later bit (xor = 2^m - 1: the worst case for any
            # arithmetic shortcut computing the highest differing bit)
            bit = rng.randrange(ks * 8)
            x = int.from_bytes(key, "big") ^ ((1 << (ks * 8 - bit)) - 1)
            k = x.to_bytes(ks, "big")
        else:
            bit = rng.randrange(ks * 8)
            kk = bytearray(key)
            kk[bit // 8] ^= 0x80 >> (bit % 8)
            for j in range(bit + 1, ks * 8):      # randomise everything after the first differing bit
                if rng.random() < 0.5:
                    kk[j // 8] ^= 0x80 >> (j % 8)
            k = bytes(kk)
        bp = first_diff_bit(key, k)
        tr = None
        r2 = rng.random()
        if r2 < 0.5:
            choices = [0, ks * 8]
            if bp is not None:
                choices += [bp, bp + 1, max(0, bp - 1), min(ks * 8, bp + 2)]
            else:
                # an update of the tracked key itself needs none of the hashes: any pruned list must do
                choices += [1, ks * 4, ks * 8 - 1, rng.randrange(ks * 8 + 1)]
            tr = rng.choice(choices)
        if rng.random() < 0.25:
            stream.append(("delete", k, tr))
        else:
            stream.append(("update", k, rng.choice([b"v", b"w" * 40, b"", d, b"\x01"]), tr))
    if ks <= 2 and rng.random() < 0.35:      # (small key sizes only: each update costs 8 * key_size hashes in the model)
        # the same write repeated around changes to a NEIGHBOUR: key A (differs from the tracked key at bit i) is written with the
        # same value several times while key B (inside the sibling subtree the proof takes from A's updates: equal to A up to a
        # later bit j) really changes in between - every returned hash list must be current
        i = rng.randrange(ks * 8 - 1)
        a = bytearray(key)
        a[i // 8] ^= 0x80 >> (i % 8)
        j = rng.randrange(i + 1, ks * 8)
        b = bytearray(a)
        b[j // 8] ^= 0x80 >> (j % 8)
        a, b = bytes(a), bytes(b)
        x = rng.choice([b"x", b"y" * 33])
        stream += [("update", a, x, None), ("update", b, b"1", None), ("update", a, x, None), ("update", b, b"2" * 40, None),
                   ("update", a, x, rng.choice([None, i + 1])), ("delete", b, None), ("update", a, x, None)]
    return {"ks": ks, "default": d, "prior": prior, "key": key, "stream": stream}


def proof_obs(p):
    def root():
        try:
            return bytes(p.root_hash)
        except Exception as e:
            return C.exc_obs(e, with_attrs=False)
    return [bytes(p.value), [bytes(x) for x in p.branch], root()]


def run_impl(case):
    from trie.smt import SparseMerkleTree, SparseMerkleProof
    t = SparseMerkleTree(key_size=case["ks"], default=case["default"])
    for op in case["prior"]:
        t.set(op[1], op[2])
    v, br = t._get(case["key"])
    br_arg = list(br)
    p = SparseMerkleProof(case["key"], v, br_arg)
    br_arg[:] = [b"\xde" * 32] * len(br_arg)        # the caller reuses its list: the proof must have taken a copy
    outs = [proof_obs(p)]
    aux = []
    for op in case["stream"]:
        if op[0] == "update":
            k, val, tr = op[1], op[2], op[3]
            ups = t.set(k, val)
        else:
            k, tr = op[1], op[2]
            val = case["default"]
            ups = t.delete(k)
        ups2 = ups if tr is None else ups[:tr]
        before = proof_obs(p)
        ups_arg = list(ups2)
        try:
            p.update(k, val, ups_arg)
            res = None
        except Exception as e:
            res = C.exc_obs(e, with_attrs=False)
        ups_arg[:] = [b"\xbe" * 32] * len(ups_arg)          # ... and its list of node hashes
        after = proof_obs(p)
        outs.append([res, after, bytes(t.root_hash)])
        tv, tb = t._get(case["key"])
        if res is not None:
            # rejected: the proof is (must be) unchanged and now stale; re-create it from the tree
            tb_arg = list(tb)
            p = SparseMerkleProof(case["key"], tv, tb_arg)
            tb_arg[:] = [b"\xad" * 32] * len(tb_arg)
        aux.append({"before": before, "after": after, "res": res, "tree_value": bytes(tv),
                    "tree_branch": [bytes(x) for x in tb], "root": bytes(t.root_hash), "full_len": len(ups)})
    return outs, aux


def oracle(case, outs, aux):
    key = case["key"]
    ok = True   # still in sync (a rejected update legitimately desynchronises the proof afterwards)
    for op, a in zip(case["stream"], aux):
        k = op[1]
        tr = op[3] if op[0] == "update" else op[2]
        bp = first_diff_bit(key, k)
        n = a["full_len"] if tr is None else min(tr, a["full_len"])
        must_reject = bp is not None and n <= bp
        if must_reject:
            if a["res"] != Exc(1):
                return "a node-hash list not reaching the first differing bit was not rejected with ValidationError"
            if a["after"] != a["before"]:
                return "a rejected update changed the proof"
        else:
            if a["res"] is not None:
                return f"a sufficient node-hash list was rejected: {a['res']!r}"
            if ok:
                if a["after"][0] != a["tree_value"] or a["after"][1] != a["tree_branch"]:
                    return "proof value/branch differ from the tree's after a streamed update"
                if a["after"][2] != a["root"]:
                    return "proof root hash differs from the tree's"
    return None


def cpop(op):
    if op[0] == "update":
        return f"PUpdate {cb(op[1])} {cb(op[2])} {copt(op[3], cnat)}"
    return f"PDelete {cb(op[1])} {copt(op[2], cnat)}"


def coq_case(case, outs):
    prior = clist([c14.cop(o) for o in case["prior"]])
    return (f"(({cnat(case['ks'])}, {cb(case['default'])}, {prior}, {cb(case['key'])}, "
            f"{clist([cpop(o) for o in case['stream']])}), {cobs(outs)})")


def nontrivial(case, aux):
    ks = {o[1] == case["key"] for o in case["stream"]}
    trs = [(o[3] if o[0] == "update" else o[2]) for o in case["stream"]]
    return (ks == {True, False} and any(o[0] == "delete" for o in case["stream"])
            and any(a["res"] is None and t is not None for a, t in zip(aux, trs))
            and any(a["res"] is not None for a in aux))


def _complement_case(ks):
    """update keys whose xor with the tracked key is 2^m - 1 for large m (every bit from the first differing one on differs):
    the first differing bit must be found exactly, whatever the key size"""
    key = bytes(range(0x10, 0x10 + ks))
    ki = int.from_bytes(key, "big")
    n = ks * 8
    stream = []
    for j, m in enumerate([n, n - 1, n - 7, n - 8, n - 9, 54, 53, 1]):
        k = (ki ^ ((1 << m) - 1)).to_bytes(ks, "big")
        stream.append(("update", k, [b"v", b"w" * 40, b"", b"\x01"][j % 4], None) if j % 3 else ("delete", k, None))
    stream.append(("update", key, b"q", None))
    return {"ks": ks, "default": b"", "prior": [("set", key, b"p")], "key": key, "stream": stream}


def corpus():
    return [{"ks": 1, "default": b"", "prior": [("set", b"\x03", b"\x01")], "key": b"\x03",
             "stream": [("update", b"\x05", b"\x01", None), ("update", b"\x05", b"\x02", 6), ("update", b"\x03", b"\x05", 0),
                        ("delete", b"\x83", 1), ("update", b"\x02", b"x", 7), ("update", b"\x02", b"y", 8), ("delete", b"\x03", None)]}] \
        + [_complement_case(ks) for ks in (7, 8)]


def check(tier, seed):
    R = C.Reporter("C15", tier, seed)
    R.gate = C.proof_gate("C15")
    rng = random.Random(seed)
    n = 50 if tier == "quick" else 800
    cases = corpus() + [gen_case(rng, tier) for _ in range(n)] + [gen_case(rng, tier, 32) for _ in range(1 if tier == "quick" else 10)]
    cases += [gen_case(rng, tier, ks) for ks in ([7, 8, 8, 9] if tier == "quick" else [7, 8, 9, 12, 16] * 6)]
    terms = []
    for case in cases:
        outs, aux = run_impl(case)
        R.evaluations += 1
        R.count(f"key_size_{case['ks']}")
        for o, a in zip(case["stream"], aux):
            R.count(o[0] + ("_rejected" if a["res"] is not None else "") +
                    ("_own_key" if o[1] == case["key"] else ""))
        bad = oracle(case, outs, aux)
        if bad:
            R.spec_violations.append((bad, case))
        if nontrivial(case, aux):
            R.nontrivial.add(C.case_key(case))
            if len(R.samples) < 2:
                R.samples.append(C.to_json(case))
        terms.append(coq_case(case, outs))
    shard = 4
    mism, errs, nsh = C.eval_cases("C15", "cases", IMPORTS, "c15_run", CASE_T, terms, shard=shard)
    R.shards, R.coq_errors = nsh, errs
    R.shards_ok = nsh - len(errs) - len({m // shard for m in mism})
    for m in mism[:3]:
        R.corr_mismatches.append(("impl≠model at SparseMerkleProof stream", cases[m],
                                  {"impl": run_impl(cases[m])[0],
                                   "model": C.eval_show("C15", "cases", IMPORTS, "c15_run", CASE_T, terms[m])}))

    def search():
        r2 = random.Random(seed + 11)
        for _ in range(3000):
            c = gen_case(r2, "thorough")
            outs, aux = run_impl(c)
            bad = oracle(c, outs, aux)
            if bad:
                return bad, c
        return None

    return R.finish(RULE, search=search)


def replay(payload):
    case = payload["case"]
    case["prior"] = [tuple(o) for o in case["prior"]]
    case["stream"] = [tuple(o) for o in case["stream"]]
    outs, aux = run_impl(case)
    bad = oracle(case, outs, aux)
    print("replay:", "VIOLATES: " + bad if bad else "holds")
    return 1 if bad else 0
