"""C11 — HexaryTrieFog is an immutable, order-independent record of unexplored prefixes."""
import random

from .. import common as C
from ..common import Exc, clist, cnibs, cobs

IMPORTS = ("From Coq Require Import List NArith ZArith.\nFrom PyTrie.Base Require Import Bytes Result Nibbles.\n"
           "From PyTrie.Fog Require Import Fog.")
CASE_T = "list fop"
RULE = ("random exploration sequences on a fresh fog: leaf ([]), extension (one long segment), branch (1-nibble segments), "
        "mixed-length, duplicate, nested, unknown-prefix and bad-nibble inputs; mark_all_complete; both nearest_* queries for random "
        "keys and keys adjacent to / extending / prefixing members; serialize round trip; every explore also re-run in the opposite "
        "order with an independent one (commutation). non-trivial = >= 3 successful explorations incl. a multi-segment one, a "
        "rejected call and both kinds of query")


def fog_list(f):
    return [[int(x) for x in p] for p in f._unexplored_prefixes]


def gen_segs(rng, kind):
    if kind == "leaf":
        return []
    if kind == "selfseg":
        # the empty continuation: the prefix is replaced by itself (alone: no change; with others: nested, rejected)
        return rng.choice([[[]], [[]], [[], [rng.randrange(16)]], [[], []]])
    if kind == "ext":
        return [[rng.randrange(16) for _ in range(rng.randint(1, 4))]]
    if kind == "branch":
        return [[n] for n in sorted(rng.sample(range(16), rng.randint(1, 5)))]
    if kind == "mixed":
        first = sorted(rng.sample(range(16), rng.randint(2, 4)))
        return [[n] + [rng.randrange(16) for _ in range(rng.randint(0, 2))] for n in first]
    if kind == "dup":
        s = [rng.randrange(16)]
        return [s, [rng.randrange(16), 1], list(s)]
    if kind == "nested":
        s = [rng.randrange(16)]
        return [s + [rng.randrange(16)], s] if rng.random() < 0.5 else [s, s + [3, 4], [(s[0] + 1) % 16]]
    if kind == "nested3":
        # three distinct lengths, the nesting between the two longer ones (or between shortest and longest)
        a, b = rng.sample(range(16), 2)
        c, d = rng.randrange(16), rng.randrange(16)
        variants = [[[a], [b, c], [b, c, d]], [[b, c, d], [a], [b, c]], [[a], [a, c, d], [b, c]], [[b, c], [a, c, d, 1], [a, c, d]]]
        return rng.choice(variants)
    if kind == "bad":
        return [[rng.choice([16, 17, 255])], [1]]
    raise ValueError(kind)


def near_key(rng, members):
    if members and rng.random() < 0.75:
        p = list(rng.choice(members))
        r = rng.random()
        if r < 0.25:
            return p + [rng.randrange(16) for _ in range(rng.randint(0, 2))]
        if r < 0.45:
            return p[: rng.randint(0, len(p))]
        if r < 0.7 and p:
            q = list(p)
            q[-1] = max(0, min(15, q[-1] + rng.choice([-1, 1])))
            return q
        if r < 0.8:
            return p[:-1] + [15, 15] if p else [15]
        if r < 0.88:
            return p[:-1] + [0] if p else [0]
        # a key between two siblings, at the 7/8 boundary where the padded distances (15 below, 0 above) tie or nearly tie
        q = p[:-1] + [max(0, min(15, p[-1] + rng.choice([-1, 1])))] if p else []
        return q + [rng.choice([7, 8]) for _ in range(rng.randint(1, 3))] + [rng.choice([0, 7, 8, 15])]
    return [rng.randrange(16) for _ in range(rng.randint(0, 4))]


def gen_case(rng, tier):
    from trie.fog import HexaryTrieFog
    f = HexaryTrieFog()
    ops = []
    n = rng.randint(3, 14) if tier == "quick" else rng.randint(5, 40)
    for _ in range(n):
        members = fog_list(f)
        r = rng.random()
        if r < 0.55:
            kind = rng.choice(["leaf", "ext", "branch", "branch", "mixed", "mixed", "dup", "nested", "nested3", "bad", "selfseg"])
            if members and rng.random() < 0.9:
                p = list(rng.choice(members))
            else:
                p = [rng.randrange(16) for _ in range(rng.randint(0, 3))]   # mostly unknown
            if rng.random() < 0.03:
                p = p + [16]
            segs = gen_segs(rng, kind)
            ask = [p + [rng.randrange(16)], near_key(rng, members)] if rng.random() < 0.4 else []
            for q in ask:
                ops.append((rng.choice(["nu", "nr"]), [x for x in q if x < 16]))
            ops.append(("explore", p, segs))
            try:
                f = f.explore(tuple(p), [tuple(s) for s in segs])
            except Exception:
                pass
            for q in ask:
                ops.append(("nu", [x for x in q if x < 16]))
                ops.append(("nr", [x for x in q if x < 16]))
        elif r < 0.65:
            k = rng.randint(1, 3)
            ps = [list(x) for x in rng.sample(members, min(k, len(members)))] if members else [[1]]
            if rng.random() < 0.2:
                ps.append([rng.randrange(16), rng.randrange(16), 9])
            if rng.random() < 0.1 and ps:
                ps.append(list(ps[0]))
            # the same question before and after: a fog derived from another one must not answer from what the old one knew
            ask = [list(ps[0]) + [rng.randrange(16) for _ in range(rng.randint(0, 2))], near_key(rng, members)]
            for q in ask:
                ops.append((rng.choice(["nu", "nr"]), q))
            ops.append(("mark", ps))
            try:
                f = f.mark_all_complete([tuple(p) for p in ps])
            except Exception:
                pass
            for q in ask:
                ops.append(("nu", q))
                ops.append(("nr", q))
        elif r < 0.8:
            ops.append(("nu", near_key(rng, members)))
        elif r < 0.95:
            ops.append(("nr", near_key(rng, members)))
        else:
            ops.append(("rt",))
    return ops


def run_impl(ops):
    from trie.fog import HexaryTrieFog
    f = HexaryTrieFog()
    outs = []
    aux = []     # oracle material: (members before, members after / None, receiver unchanged?)
    for op in ops:
        before = fog_list(f)
        try:
            if op[0] == "explore":
                g = f.explore(tuple(op[1]), [tuple(s) for s in op[2]])
                same = fog_list(f) == before
                f = g
                outs.append(fog_list(f))
            elif op[0] == "mark":
                g = f.mark_all_complete([tuple(p) for p in op[1]])
                same = fog_list(f) == before
                f = g
                outs.append(fog_list(f))
            elif op[0] == "nu":
                outs.append([int(x) for x in f.nearest_unknown(tuple(op[1]))])
                same = fog_list(f) == before
            elif op[0] == "nr":
                outs.append([int(x) for x in f.nearest_right(tuple(op[1]))])
                same = fog_list(f) == before
            else:
                ser = f.serialize()
                g = HexaryTrieFog.deserialize(ser)
                import ast
                lst = ast.literal_eval(ser[len(b"HexaryTrieFog:"):].decode())
                outs.append([[bytes(x) for x in lst], fog_list(g)])
                same = fog_list(f) == before and g == f
        except Exception as e:
            outs.append(C.exc_obs(e, with_attrs=False, fog=True))
            same = fog_list(f) == before
        aux.append((before, fog_list(f), same))
    return outs, aux


def is_prefix(a, b):
    return len(a) <= len(b) and b[: len(a)] == a


def oracle(ops, outs, aux):
    """The property, stated on sets of prefixes (independent of the sorted-list model)."""
    for op, out, (before, after, same) in zip(ops, outs, aux):
        if not same:
            return f"receiver modified by {op[0]}"
        bset = {tuple(p) for p in before}
        for a in after:
            for b in after:
                if a != b and is_prefix(a, b):
                    return "an unexplored prefix starts with another"
        if after != sorted(after):
            return "prefixes not kept in sorted order"
        if op[0] == "explore":
            p, segs = op[1], op[2]
            bad = (any(x > 15 for x in p) or any(x > 15 for s in segs for x in s) or tuple(p) not in bset
                   or len({tuple(s) for s in segs}) != len(segs)
                   or any(a != b and is_prefix(a, b) for a in segs for b in segs))
            if bad:
                if not isinstance(out, Exc):
                    return f"explore accepted an invalid call {op!r}"
                if after != before:
                    return "rejected explore had an effect"
            else:
                if isinstance(out, Exc):
                    return f"explore rejected a valid call {op!r}: {out!r}"
                exp = (bset - {tuple(p)}) | {tuple(p + s) for s in segs}
                if {tuple(x) for x in after} != exp:
                    return "explore result is not (set - prefix) + continuations"
        elif op[0] == "mark":
            ps = [tuple(p) for p in op[1]]
            ok = all(x <= 15 for p in ps for x in p) and len(set(ps)) == len(ps) and all(p in bset for p in ps)
            if ok:
                if isinstance(out, Exc) or {tuple(x) for x in after} != bset - set(ps):
                    return "mark_all_complete is not repeated explore(p, ())"
            else:
                if not isinstance(out, Exc) or after != before:
                    return "mark_all_complete accepted an invalid call"
        elif op[0] in ("nu", "nr"):
            k = op[1]
            if any(x > 15 for x in k):
                continue
            if not before:
                if out != Exc(15):
                    return "empty fog must raise PerfectVisibility"
                continue
            containing = [p for p in before if is_prefix(p, k)]
            if op[0] == "nr":
                right = [p for p in before if p > k]
                if containing:
                    exp = containing[0]
                elif right:
                    exp = min(right)
                else:
                    exp = Exc(16)
                if out != exp:
                    return f"nearest_right({k}) = {out!r}, expected {exp!r}"
            else:
                if isinstance(out, Exc):
                    return f"nearest_unknown raised {out!r} on a non-empty fog"
                if out not in before:
                    return "nearest_unknown returned a non-member"
                if containing and out != containing[0]:
                    return "nearest_unknown ignored the prefix containing the key"
                le = [p for p in before if p <= k]
                gt = [p for p in before if p > k]
                adj = ([max(le)] if le else []) + ([min(gt)] if gt else [])
                if out not in adj:
                    return "nearest_unknown returned a non-adjacent prefix"
        else:
            if isinstance(out, Exc) or out[1] != before:
                return "serialize/deserialize does not round-trip"
    return None


def commute_check(ops):
    """independent explorations commute (checked on the implementation; proved of the model)"""
    from trie.fog import HexaryTrieFog
    f = HexaryTrieFog()
    for op in ops:
        if op[0] != "explore":
            continue
        try:
            g = f.explore(tuple(op[1]), [tuple(s) for s in op[2]])
        except Exception:
            continue
        others = [p for p in fog_list(f) if p != op[1]]
        if others:
            q = others[0]
            a = g.explore(tuple(q), ((3,), (5, 6)))
            b = f.explore(tuple(q), ((3,), (5, 6))).explore(tuple(op[1]), [tuple(s) for s in op[2]])
            if a != b:
                return f"explore({op[1]}) and explore({q}) do not commute"
        f = g
    return None


def cop(op):
    if op[0] == "explore":
        return f"FExplore {cnibs(op[1])} {clist([cnibs(s) for s in op[2]])}"
    if op[0] == "mark":
        return f"FMark {clist([cnibs(p) for p in op[1]])}"
    if op[0] == "nu":
        return f"FNearestUnknown {cnibs(op[1])}"
    if op[0] == "nr":
        return f"FNearestRight {cnibs(op[1])}"
    return "FRoundTrip"


def nontrivial(ops, outs):
    ok_ex = [o for o, r in zip(ops, outs) if o[0] == "explore" and not isinstance(r, Exc)]
    rej = any(isinstance(r, Exc) and o[0] in ("explore", "mark") for o, r in zip(ops, outs))
    return (len(ok_ex) >= 3 and any(len(o[2]) > 1 for o in ok_ex) and rej
            and any(o[0] == "nu" for o in ops) and any(o[0] == "nr" for o in ops))


def corpus():
    return [
        [("explore", [], [[1], [2, 3]]), ("nr", [1, 5]), ("nu", [2]), ("explore", [1], []), ("nr", [2, 3, 4]), ("nr", [3]),
         ("explore", [2, 3], [[0], [15]]), ("nu", [2, 3, 8]), ("nu", [2, 3, 7]), ("rt",), ("mark", [[2, 3, 0], [2, 3, 15]]), ("nu", []), ("nr", [])],
        [("explore", [], [[1], [2, 3], [2, 3, 4]]), ("explore", [], [[2, 3, 4], [1], [2, 3]]), ("explore", [], [[1], [2, 3], [4, 5, 6]]),
         ("explore", [2, 3], []), ("nu", [2, 3, 4]), ("rt",)],
        [("explore", [], [[1], [1, 2]]), ("explore", [], [[1], [1]]), ("explore", [5], []), ("explore", [], [[16]]), ("mark", [[7]]), ("rt",)],
    ]


SPECIAL = [0x2C, 0x20, 0x27, 0x22, 0x5C, 0x5B, 0x5D, 0x28, 0x29, 0x62, 0x78, 0x0A, 0x0D, 0x00, 0x09, 0x7F, 0xFF, 0x30, 0x3A, 0x48]


def serialize_sweep(rng, tier):
    """Fogs whose serialised prefixes contain the bytes that mean something to the textual format (comma, blank, quotes, backslash,
    brackets, 'b', 'x', control characters): every single byte, every pair of special bytes, at both alignments (even-length
    prefix: flag byte then the bytes; odd-length: the first nibble shares the flag byte), and random strings of special bytes.
    Judged by the round-trip rule alone."""
    def nibs(bs):
        return [x for b in bs for x in (b >> 4, b & 15)]
    segs = [nibs([b]) for b in range(256)] + [nibs([a, b]) for a in SPECIAL for b in SPECIAL]
    for _ in range(300 if tier == "quick" else 3000):
        segs.append(nibs([rng.choice(SPECIAL) if rng.random() < 0.8 else rng.randrange(256) for _ in range(rng.randint(2, 6))]))
    cases = []
    for sg in segs:
        for lead in ([], [rng.randrange(16)], [2], [12]):
            p = lead + sg
            other = [(p[0] + 1) % 16]
            cases.append([("explore", [], [p, other]), ("rt",), ("explore", p, [[2, 12, 2, 0], [7]]), ("rt",)])
    return cases


def check(tier, seed):
    R = C.Reporter("C11", tier, seed)
    R.gate = C.proof_gate("C11")
    rng = random.Random(seed)
    n = 500 if tier == "quick" else 6000
    cases = corpus() + [gen_case(rng, tier) for _ in range(n)]
    terms = []
    for ops in cases:
        outs, aux = run_impl(ops)
        R.evaluations += 1
        for o, r in zip(ops, outs):
            R.count(o[0] + ("_rejected" if isinstance(r, Exc) else ""))
        bad = oracle(ops, outs, aux) or commute_check(ops)
        if bad:
            R.spec_violations.append((bad, {"ops": ops}))
        if nontrivial(ops, outs):
            R.nontrivial.add(C.case_key(ops))
            if len(R.samples) < 2:
                R.samples.append(C.to_json({"ops": ops, "impl": outs}))
        terms.append(f"({clist([cop(o) for o in ops])}, {cobs(outs)})")
    for ops in serialize_sweep(rng, tier):
        outs, aux = run_impl(ops)
        R.evaluations += 1
        R.count("serialize_sweep")
        bad = oracle(ops, outs, aux)
        if bad:
            R.spec_violations.append((bad, {"ops": ops}))
    shard = 100 if tier == "quick" else 400
    mism, errs, nsh = C.eval_cases("C11", "cases", IMPORTS, "c11_run", CASE_T, terms, shard=shard)
    R.shards, R.coq_errors = nsh, errs
    R.shards_ok = nsh - len(errs) - len({m // shard for m in mism})
    for m in mism[:3]:
        R.corr_mismatches.append(("impl≠model at HexaryTrieFog (explore / mark_all_complete / nearest_* / serialize)", {"ops": cases[m]},
                                  {"impl": run_impl(cases[m])[0],
                                   "model": C.eval_show("C11", "cases", IMPORTS, "c11_run", CASE_T, terms[m])}))

    def search():
        r2 = random.Random(seed + 3)
        for _ in range(20000):
            ops = gen_case(r2, "thorough")
            outs, aux = run_impl(ops)
            bad = oracle(ops, outs, aux)
            if bad:
                return bad, {"ops": ops}
        return None

    return R.finish(RULE, search=search)


def replay(payload):
    ops = [tuple(o) for o in payload["case"]["ops"]]
    outs, aux = run_impl(ops)
    bad = oracle(ops, outs, aux) or commute_check(ops)
    print("replay:", "VIOLATES: " + bad if bad else "holds")
    return 1 if bad else 0
