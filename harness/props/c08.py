"""C08 — traverse / traverse_from describe the canonical node at every nibble path."""
import itertools
import random

from .. import common as C
from .. import hexrun as HX
from ..common import Exc, cb, clist, cnibs, cobs
from .c02 import IMPORTS_T

RULE = ("random tries (embedded and hashed nodes, values on branches, keys that prefix other keys); nibble paths: every prefix of "
        "every stored key, one- and two-nibble continuations, divergences inside extensions and leaves, and paths beyond the longest "
        "key (exhaustive per trie up to two nibbles past the keys in the thorough tier); compared in Coq with the description the "
        "canonical (Yellow-Paper) tree gives at that path, computed from the mapping alone; traverse_from(node, segment) against "
        "traverse(prefix + segment) for every split, counting database reads. non-trivial = trie with an extension, a branch value, "
        "a partial traversal and a blank answer")


def nib(k):
    return [x for b in k for x in (b >> 4, b & 15)]


def gen_paths(rng, m, tier):
    keys = [nib(k) for k in m]
    paths = {()}
    for k in keys:
        for i in range(len(k) + 1):
            paths.add(tuple(k[:i]))
            for a in (0, 1, 15):
                paths.add(tuple(k[:i] + [a]))
            paths.add(tuple(k[:i] + [rng.randrange(16), rng.randrange(16)]))
        paths.add(tuple(k + [0, 0]))
    paths = sorted(paths)
    cap = 40 if tier == "quick" else 400
    if len(paths) > cap:
        paths = rng.sample(paths, cap)
    return [list(p) for p in paths]


def child_hops(db, root, pre, seg):
    """Independent of the trie code (rlp and the hex-prefix convention only): the number of child references followed when
    `seg` is consumed from the node that lies exactly at `pre`; None when there is no node exactly at `pre`."""
    import rlp
    from trie.constants import BLANK_NODE_HASH

    def resolve(ref):
        if isinstance(ref, (bytes, bytearray)):
            if len(ref) == 0 or bytes(ref) == BLANK_NODE_HASH:
                return b""
            if len(ref) < 32:
                return rlp.decode(bytes(ref))
            if bytes(ref) not in db:
                return None
            return rlp.decode(dict.__getitem__(db, bytes(ref)))
        return ref

    def walk(node, nibs):
        hops = 0
        nibs = list(nibs)
        while nibs:
            if node is None or node == b"":
                return node, hops, nibs
            if len(node) == 17:
                ref, nibs = node[nibs[0]], nibs[1:]
            else:
                hp = node[0]
                flag = hp[0] >> 4
                pn = [x for b in hp[1:] for x in (b >> 4, b & 15)]
                if flag & 1:
                    pn = [hp[0] & 15] + pn
                if flag & 2 or nibs[: len(pn)] != pn:
                    return node, hops, nibs
                ref, nibs = node[1], nibs[len(pn):]
            hops += 1
            node = resolve(ref)
        return node, hops, nibs

    start, _, left = walk(resolve(root), pre)
    if left or start is None:
        return None
    return walk(start, seg)[1]


def reuse_check(t, paths):
    from trie.exceptions import TraversedPartialPath

    def obs(f):
        try:
            n = f()
            return ("node", n.sub_segments, n.value, n.suffix, n.raw, n.node_type)
        except TraversedPartialPath as e:
            return ("partial", e.nibbles_traversed, e.node, e.untraversed_tail, e.simulated_node)
        except Exception as e:
            return ("exc", type(e).__name__)

    by_pre = {}
    for p in paths:
        for cut in range(len(p) + 1):
            by_pre.setdefault(tuple(p[:cut]), set()).add(tuple(p[cut:]))
    done = 0
    for pre, segs in sorted(by_pre.items(), key=lambda kv: -len(kv[1])):
        if len(segs) < 3 or done >= 6:
            continue
        try:
            parent = t.traverse(pre)
        except Exception:
            continue
        done += 1
        segs = sorted(segs, key=lambda s_: (len(s_), s_))
        for rnd in range(2):                      # twice: the second round sees whatever the first one left behind
            for seg in segs:
                got = obs(lambda: t.traverse_from(parent, seg))
                want = obs(lambda: t.traverse(pre + seg))
                if got[0] == "partial" and want[0] == "partial":
                    same = (tuple(pre) + tuple(got[1]) == tuple(want[1])) and got[2:] == want[2:]
                else:
                    same = got == want
                if not same:
                    return (f"traverse_from(<node obtained once at {pre} and reused>, {seg}) = {got[0]} differs from "
                            f"traverse({pre + seg}) = {want[0]}")
        try:
            if parent != t.traverse(pre):
                return f"the node obtained at {pre} changed while it was used as the start of traverse_from calls"
        except Exception:
            pass
    return None


def ann4(h):
    """(sub_segments, value, suffix, type) of a hnode observation"""
    return [h[0], h[1], h[2], h[4]]


def run_case(case, tier):
    from trie import HexaryTrie
    backing = C.FailingDict()
    t = HexaryTrie(backing, prune=case["prune"])
    # the writes, with root_node read half-way (an implementation that memoises it must notice every later change of the
    # root, whichever way it happens) and the second half applied directly or as one squash_changes block
    ws = list(case["writes"])
    h = len(ws) // 2
    rng0 = random.Random(case["seed"] + 1)
    ops = ws[:h] + [("root_node",)]
    if ws[h:] and rng0.random() < 0.5:
        ops.append(("batch", ws[h:], None))
    else:
        ops += ws[h:]
    nw_ops = len(ops)
    paths = case["paths"]
    for p in paths:
        ops.append(("traverse", p))
    ops.append(("root_node",))
    rng = random.Random(case["seed"])
    splits = []
    for p in paths:
        if case.get("all_splits"):
            splits.extend((p[:cut], p[cut:]) for cut in range(len(p)))      # every way of splitting every path
        elif p and rng.random() < (0.5 if tier == "quick" else 1.0):
            cut = rng.randint(0, len(p) - 1)
            splits.append((p[:cut], p[cut:]))
        if rng.random() < 0.15:
            splits.append((p, []))          # the empty segment: traverse_from(node, ()) is that node, and reads nothing
    for pre, seg in splits:
        ops.append(("traverse_from", pre, seg))
    for pre, seg in splits:
        ops.append(("tf_reads", pre, seg))
    outs = [HX.step(t, op, backing) for op in ops]
    nw = nw_ops
    res = dict((tuple(p), o) for p, o in zip(paths, outs[nw:nw + len(paths)]))
    bad = None
    m = case["m"]
    keys = [nib(k) for k in m]
    stats = {"partial": 0, "blank": 0}
    spec_expected = []
    for p in paths:
        o = res[tuple(p)]
        below = [k for k in keys if k[: len(p)] == p]
        if isinstance(o, Exc) and o.tag == 10:
            stats["partial"] += 1
            reached, node, tail, sim = o.args
            if reached + tail != p and bad is None:
                bad = f"TraversedPartialPath at {p}: nibbles_traversed + untraversed_tail != path"
            if not below and bad is None:
                bad = f"partial traversal at {p} although no stored key starts with it"
            # the simulated node is the enclosing leaf / extension with its path trimmed: same second item (value / child
            # reference) - a walker continues from simulated_node.raw
            try:
                if bad is None and node[4] in (1, 2) and sim[3][1] != node[3][1]:
                    bad = (f"TraversedPartialPath at {p}: the simulated node's raw body does not carry the enclosing node's "
                           f"{'value' if node[4] == 1 else 'child reference'}")
            except (IndexError, TypeError):
                pass
            spec_expected.append([1, ann4(sim), reached, tail, ann4(node)])
        elif isinstance(o, Exc):
            if bad is None:
                bad = f"traverse({p}) raised {o!r} on a complete database"
            spec_expected.append(None)
        else:
            is_blank = o[4] == 0
            if is_blank:
                stats["blank"] += 1
            if is_blank != (not below) and bad is None:
                bad = f"traverse({p}) is blank = {is_blank} but keys below the path: {len(below)}"
            spec_expected.append([0, ann4(o)])
    # root_node == traverse(())
    rn = outs[nw + len(paths)]
    if () in res and rn != res[()] and bad is None:
        bad = "root_node differs from traverse(())"
    # traverse_from(node at pre, seg) == traverse(pre + seg), with at most one read per hop
    for (pre, seg), o in zip(splits, outs[nw + len(paths) + 1:nw + len(paths) + 1 + len(splits)]):
        whole = res[tuple(pre + seg)]
        first = res.get(tuple(pre))
        if isinstance(first, Exc) or (isinstance(o, list) and len(o) == 1 and isinstance(o[0], Exc)):
            continue        # cannot obtain a node at pre (partial): traverse_from not applicable
        if first is not None and first[4] == 0:
            continue
        if isinstance(whole, Exc) and whole.tag == 10 and isinstance(o, Exc) and o.tag == 10:
            # same node / tail / simulated node; nibbles_traversed is relative to the start node
            if (o.args[1:] != whole.args[1:] or pre + o.args[0] != whole.args[0]) and bad is None:
                bad = f"traverse_from({pre},{seg}) partial result differs from traverse({pre + seg})"
        elif o != whole and bad is None:
            bad = f"traverse_from(node at {pre}, {seg}) != traverse({pre + seg})"
    # read counting: traverse_from reads at most one database entry per child hop (hops counted by an independent walk)
    for (pre, seg), nreads in zip(splits, outs[nw + len(paths) + 1 + len(splits):]):
        if nreads is None or bad is not None:
            continue
        stats["read_counts"] = stats.get("read_counts", 0) + 1
        hops = child_hops(backing, bytes(t.root_hash), pre, seg)
        if hops is not None and nreads > hops:
            bad = f"traverse_from(node at {pre}, {seg}) read the database {nreads} times over {hops} child hop(s)"
    # one node object obtained at a prefix and then REUSED for several traverse_from calls (a walker keeps parents in its
    # frontier cache): every call must equal traverse(prefix + segment), also after an earlier call ended inside a leaf or
    # extension below that node
    if bad is None:
        bad = reuse_check(t, paths)
    if bad is None:
        for p in paths[:15]:
            o = res[tuple(p)]
            if isinstance(o, Exc) or o[4] != 3:
                continue
            try:
                parent = t.traverse(tuple(p))
            except Exception:
                continue
            for seg in parent.sub_segments:
                r0 = backing.reads
                try:
                    t.traverse_from(parent, seg)
                except Exception:
                    pass
                if backing.reads - r0 > 1:
                    bad = f"traverse_from over one child hop at {p} read the database {backing.reads - r0} times"
    return ops, outs, bad, stats, spec_expected, (t, backing)


def gen_case(rng, tier):
    long_pool = HX.make_long_pool(rng) if rng.random() < 0.2 else None
    writes, m = HX.gen_writes(rng, rng.randint(2, 8 if tier == "quick" else 14), long_pool, tiny=rng.random() < 0.3)
    return {"prune": rng.random() < 0.3, "writes": writes, "m": m, "paths": gen_paths(rng, m, tier), "seed": rng.randrange(1 << 30)}


def corpus(rng):
    # (0x56780a / 0x56780b: a four-nibble extension over a hashed branch - paths can end strictly inside it)
    m = {b"\x12\x34": b"a" * 40, b"\x12\x35": b"b", b"\x12": b"c" * 33, b"": b"r", b"\x40\x00\x00": b"leaf",
         b"\x56\x78\x0a": b"x" * 40, b"\x56\x78\x0b": b"y" * 40}
    writes = [("set", k, v, "meth") for k, v in m.items()]
    return [{"prune": False, "writes": writes, "m": m, "paths": gen_paths(rng, m, "thorough"), "seed": 3, "all_splits": True}]


def check(tier, seed):
    R = C.Reporter("C08", tier, seed)
    R.gate = C.proof_gate("C08")
    rng = random.Random(seed)
    n = 60 if tier == "quick" else 500
    cases = corpus(rng) + [gen_case(rng, tier) for _ in range(n)]
    runs, outs_list, spec_terms = [], [], []
    for case in cases:
        ops, outs, bad, stats, spec_expected, (t, backing) = run_case(case, tier)
        R.evaluations += len(case["paths"])
        R.count("partial", stats["partial"])
        R.count("blank", stats["blank"])
        if bad:
            R.spec_violations.append((bad, {"prune": case["prune"], "ops": case["writes"], "paths": case["paths"], "seed": case["seed"]}))
        kinds = HX.classify_trie(backing, t.root_hash)
        if kinds["ext"] and stats["partial"] and stats["blank"] and kinds["branch"]:
            R.nontrivial.add(C.case_key(case["writes"]))
            if len(R.samples) < 2:
                R.samples.append(C.to_json({"mapping": sorted(case["m"].items()), "paths": case["paths"][:10]}))
        runs.append((case["prune"], ops))
        outs_list.append(outs)
        if all(e is not None for e in spec_expected):
            mp = clist([f"({cb(k)}, {cb(v)})" for k, v in sorted(case["m"].items())])
            spec_terms.append(f"(({mp}, {clist([cnibs(p) for p in case['paths']])}), {cobs(spec_expected)})")
        else:
            spec_terms.append(None)
    shard = 6 if tier == "quick" else 20
    mism, errs, nsh, terms = HX.eval_hexary("C08", "cases", runs, outs_list, shard)
    idx = [i for i, s in enumerate(spec_terms) if s is not None]
    ms, es, nsh2 = C.eval_cases("C08", "spec", IMPORTS_T, "c08_spec_run", "list (bytes * bytes) * list nibbles",
                                [spec_terms[i] for i in idx], shard=shard)
    R.shards, R.coq_errors = nsh + nsh2, errs + es
    R.shards_ok = R.shards - len(errs) - len(es) - len({m // shard for m in mism}) - len({m // shard for m in ms})
    for m in ms[:3]:
        c = cases[idx[m]]
        R.spec_violations.append(("traverse does not describe the canonical node at some path (compared with the Yellow-Paper tree of "
                                  "the contents, evaluated in Coq)", {"prune": c["prune"], "ops": c["writes"], "paths": c["paths"], "seed": c["seed"]}))
    for m in mism[:3]:
        R.corr_mismatches.append(("impl≠model at traverse / traverse_from / root_node", {"prune": runs[m][0], "ops": runs[m][1]},
                                  {"model": C.eval_show("C08", "cases", HX.IMPORTS, "hexary_run", "bool * list hop", terms[m])[-2000:]}))

    def search():
        r2 = random.Random(seed + 41)
        for _ in range(300):
            c = gen_case(r2, "thorough")
            bad = run_case(c, "thorough")[2]
            if bad:
                return bad, {"prune": c["prune"], "ops": c["writes"], "paths": c["paths"], "seed": c["seed"]}
        return None

    return R.finish(RULE, search=search,
                    partial_note="tree-level and database-level traverse / traverse_from theorems and the read accounting are proved (Properties/C08.v); the "
                                 "counting of actual database reads is observed through a proxy db")


def replay(payload):
    c = payload["case"]
    writes = [HX.tuplify(o) for o in c["ops"]]
    m = {}
    for w in writes:
        HX.apply_model(m, w)
    case = {"prune": c["prune"], "writes": writes, "m": m, "paths": c["paths"], "seed": c.get("seed", 1)}
    ops, outs, bad, stats, spec_expected, _ = run_case(case, "thorough")
    if not bad and all(e is not None for e in spec_expected):
        mp = clist([f"({cb(k)}, {cb(v)})" for k, v in sorted(m.items())])
        term = f"(({mp}, {clist([cnibs(p) for p in case['paths']])}), {cobs(spec_expected)})"
        ms, es, _ = C.eval_cases("C08", "replay", IMPORTS_T, "c08_spec_run", "list (bytes * bytes) * list nibbles", [term], shard=5)
        if ms or es:
            bad = "traverse does not describe the canonical node"
    print("replay:", "VIOLATES: " + bad if bad else "holds")
    return 1 if bad else 0
