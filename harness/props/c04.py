"""C04 — non-pruning tries never lose or alter history: old roots stay readable."""
import random

from .. import common as C
from .. import hexrun as HX
from ..common import Exc

RULE = ("interleaved histories of 1..3 non-pruning tries over one shared dict (direct writes, squash_changes batches, at_root "
        "snapshot reads); the dict is made to fail at a chosen write index of an operation or of a batch commit (all indices in the "
        "thorough tier); after every step: every earlier entry still present with the same value, every new entry keyed by the keccak "
        "of its value; every root any handle ever had is re-opened (fresh trie and at_root) and read back in full. "
        "Also: two squash_changes blocks open at once on one trie object (the second abandoned or committed before the first ends). "
        "non-trivial = >= 2 handles, a batch, a failing write and >= 4 distinct historical roots")


def gen_case(rng, tier):
    nh = rng.choice([1, 2, 2, 3])
    n = rng.randint(4, 9) if tier == "quick" else rng.randint(8, 24)
    ops = []
    models = [dict() for _ in range(nh)]
    for _ in range(n):
        i = rng.randrange(nh)
        r = rng.random()
        if r < 0.5:
            w = HX.gen_write(rng, models[i].keys())
            ops.append((i, w))
            HX.apply_model(models[i], w)
        elif r < 0.7:
            inner = []
            for _ in range(rng.randint(1, 3)):
                w = HX.gen_write(rng, models[i].keys())
                inner.append(w)
                HX.apply_model(models[i], w)
            # part of the block may be a block of its own on the batch trie (which prunes: its deletes must stop at the
            # enclosing buffer and never reach the non-pruning trie's database)
            ops.append((i, ("batch", HX.nest_some(rng, inner, 0.4), None)))
        elif r < 0.9:
            # a write (direct or batched) during which the store fails at some write index
            budget = rng.randint(0, 5)
            ops.append((i, ("budget", budget)))
            if rng.random() < 0.5:
                ops.append((i, HX.gen_write(rng, models[i].keys())))
            else:
                ops.append((i, ("batch", HX.nest_some(rng, [HX.gen_write(rng, models[i].keys()) for _ in range(rng.randint(1, 3))], 0.3), None)))
            ops.append((i, ("budget", None)))
            if rng.random() < 0.6:
                ops.append((i, ops[-2][1]))      # the caller RETRIES the operation that the failing write aborted, on the same object
            # the model mapping is reconstructed from the observed outcome by the oracle
        else:
            ops.append((i, ("state",)))
    return {"nh": nh, "ops": ops}


def run_and_check(case):
    """runs the case step by step; returns (observations, violation|None, stats)"""
    from trie import HexaryTrie
    from eth_hash.auto import keccak
    backing = C.FailingDict()
    hs = [HexaryTrie(backing) for _ in range(case["nh"])]
    models = [dict() for _ in range(case["nh"])]
    history = {}                 # root -> mapping
    outs = []
    stats = {"fail": 0, "batch": 0}
    prev = {}
    bad = None
    for i, op in case["ops"]:
        before_root = bytes(hs[i].root_hash)
        out = HX.step(hs[i], op, backing)
        outs.append(out)
        if op[0] in ("set", "del"):
            if out is None:
                HX.apply_model(models[i], op)
            elif out == Exc(19):
                stats["fail"] += 1
                if hs[i].root_hash != before_root and bad is None:
                    bad = "root moved although the operation was aborted by a failing write"
            elif bad is None:
                bad = f"write raised {out!r}"
        elif op[0] == "batch":
            stats["batch"] += 1
            if out[1] is None:
                for o in op[1]:
                    HX.apply_model(models[i], o)
            elif out[1] == Exc(19):
                stats["fail"] += 1
                if hs[i].root_hash != before_root and bad is None:
                    bad = "root moved although the batch commit failed"
            elif bad is None:
                bad = f"batch raised {out[1]!r}"
        history.setdefault(bytes(hs[i].root_hash), dict(models[i]))
        cur = dict(backing)
        if bad is None:
            for k, v in prev.items():
                if cur.get(k) != v:
                    bad = "an existing database entry was removed or changed"
                    break
        if bad is None:
            for k, v in cur.items():
                if k not in prev and keccak(v) != k:
                    bad = "a new database entry is not keyed by the keccak of its value"
                    break
        prev = cur
    # every historical root, read back in full, two ways
    backing.budget = None
    if bad is None:
        for root, m in history.items():
            fresh = HexaryTrie(backing, root)
            for k in HX.related_keys(m.keys()):
                exp = m.get(k, b"")
                try:
                    a = fresh.get(k)
                    with hs[0].at_root(root) as snap:
                        b = snap.get(k)
                except Exception as e:
                    bad = f"old root {root.hex()[:8]} unreadable: {type(e).__name__}"
                    break
                if a != exp or b != exp:
                    bad = f"old root {root.hex()[:8]} reads {a!r} for key {k.hex()}, had {exp!r}"
                    break
            if bad:
                break
    stats["roots"] = len(history)
    return outs, bad, stats


def gen_overlap(rng):
    """two squash_changes blocks open at the same time on ONE trie object: block A is opened, works, then block B is opened on
    the same trie, works and is either abandoned by an exception or committed, then A ends normally. (Python-side oracle only:
    the model's blocks are properly nested.)"""
    prior, m = HX.gen_writes(rng, rng.randint(1, 5))
    a_ops, b_ops = [], []
    ma, mb = dict(m), dict(m)
    for _ in range(rng.randint(1, 3)):
        w = HX.gen_write(rng, ma.keys())
        a_ops.append(w)
        HX.apply_model(ma, w)
    for _ in range(rng.randint(1, 3)):
        w = HX.gen_write(rng, mb.keys())
        b_ops.append(w)
        HX.apply_model(mb, w)
    return {"overlap": True, "prior": prior, "a": a_ops, "b": b_ops, "b_exit": rng.choice(["abort", "abort", "commit"])}


def run_overlap(case):
    from trie import HexaryTrie
    backing = C.FailingDict()
    t = HexaryTrie(backing)
    m = {}
    history = {}
    for w in case["prior"]:
        HX.step(t, w, backing)
        HX.apply_model(m, w)
        history[bytes(t.root_hash)] = dict(m)
    ma, mb = dict(m), dict(m)
    try:
        with t.squash_changes() as a:
            for w in case["a"]:
                HX.step(a, w, backing)
                HX.apply_model(ma, w)
            try:
                with t.squash_changes() as b:
                    for w in case["b"]:
                        HX.step(b, w, backing)
                        HX.apply_model(mb, w)
                    if case["b_exit"] == "abort":
                        raise C.Abort()
                history[bytes(t.root_hash)] = dict(mb)          # B committed: for a moment the trie is B's result
            except C.Abort:
                if dict(m) != history.get(bytes(t.root_hash)):
                    return "an abandoned block changed the root of the trie"
            for k in HX.related_keys(ma.keys())[:8]:
                if a.get(k) != ma.get(k, b""):
                    return f"block A reads {k.hex()} wrongly after another block on the same trie ended"
    except Exception as e:
        return f"leaving block A raised {type(e).__name__}: {e}"
    history[bytes(t.root_hash)] = dict(ma)
    for root, mm in history.items():
        fresh = HexaryTrie(backing, root)
        for k in HX.related_keys(mm.keys()):
            try:
                got = fresh.get(k)
            except Exception as e:
                return f"root {root.hex()[:8]} (a root the trie had) is not readable from a freshly opened trie: {type(e).__name__}"
            if got != mm.get(k, b""):
                return f"root {root.hex()[:8]} reads {got!r} for key {k.hex()}, had {mm.get(k, b'')!r}"
    return None


def gen_snapshot(rng):
    """an at_root snapshot (of the CURRENT root, or of an earlier one) held open while the trie it was taken from moves on:
    the snapshot keeps reading the contents its root had"""
    prior, _ = HX.gen_writes(rng, rng.randint(1, 5))
    later, _ = HX.gen_writes(rng, rng.randint(1, 4))
    return {"snapshot": True, "prior": prior, "later": later, "which": rng.choice(["current", "current", "earlier"]),
            "batched": rng.random() < 0.3}


def run_snapshot(case):
    from trie import HexaryTrie
    backing = C.FailingDict()
    t = HexaryTrie(backing)
    m = {}
    roots = []
    for w in case["prior"]:
        HX.step(t, w, backing)
        HX.apply_model(m, w)
        roots.append((bytes(t.root_hash), dict(m)))
    if not roots:
        return None
    root, mm = roots[-1] if case["which"] == "current" else roots[0]
    try:
        with t.at_root(root) as snap:
            if case["batched"]:
                HX.step(t, ("batch", case["later"], None), backing)
            else:
                for w in case["later"]:
                    HX.step(t, w, backing)
            for w in case["later"]:
                HX.apply_model(m, w)
            if bytes(snap.root_hash) != root:
                return "an at_root snapshot changed its root when the trie it was taken from was written to"
            for k in HX.related_keys(set(mm) | set(m)):
                if snap.get(k) != mm.get(k, b""):
                    return (f"at_root snapshot of root {root.hex()[:8]} reads {snap.get(k)!r} for key {k.hex()} after the trie moved on; "
                            f"that root held {mm.get(k, b'')!r}")
        for k in HX.related_keys(m.keys()):
            if t.get(k) != m.get(k, b""):
                return f"the trie reads key {k.hex()} wrongly after a snapshot was held across its writes"
    except Exception as e:
        return f"snapshot held across writes raised {type(e).__name__}: {e}"
    return None


def all_budgets_variants(case):
    """thorough: the same history with every failing index for each budgeted operation"""
    out = []
    idxs = [j for j, (i, op) in enumerate(case["ops"]) if op[0] == "budget" and op[1] is not None]
    for j in idxs:
        for b in range(0, 12):
            ops = list(case["ops"])
            ops[j] = (ops[j][0], ("budget", b))
            out.append({"nh": case["nh"], "ops": ops})
    return out


def check(tier, seed):
    R = C.Reporter("C04", tier, seed)
    R.gate = C.proof_gate("C04")
    rng = random.Random(seed)
    n = 110 if tier == "quick" else 500
    cases = [gen_case(rng, tier) for _ in range(n)]
    if tier == "thorough":
        extra = []
        for c in cases[:60]:
            extra.extend(all_budgets_variants(c))
        cases += extra
    terms = []
    for case in cases:
        outs, bad, stats = run_and_check(case)
        R.evaluations += 1
        R.count(f"handles_{case['nh']}")
        R.count("failing_writes", stats["fail"])
        R.count("batches", stats["batch"])
        R.count("historical_roots", stats["roots"])
        if bad:
            R.spec_violations.append((bad, case))
        if case["nh"] >= 2 and stats["batch"] and stats["fail"] and stats["roots"] >= 4:
            R.nontrivial.add(C.case_key(case))
            if len(R.samples) < 2:
                R.samples.append(C.to_json(case))
        terms.append(HX.coq_multi_case(case["nh"], case["ops"], outs))
    for _ in range(40 if tier == "quick" else 400):
        oc = gen_overlap(rng)
        bad = run_overlap(oc)
        R.evaluations += 1
        R.count("overlapping_blocks_b_" + oc["b_exit"])
        if bad:
            R.spec_violations.append((bad, oc))
    for _ in range(40 if tier == "quick" else 400):
        sc = gen_snapshot(rng)
        bad = run_snapshot(sc)
        R.evaluations += 1
        R.count("snapshot_held_across_writes_" + sc["which"])
        if bad:
            R.spec_violations.append((bad, sc))
    shard = 8 if tier == "quick" else 25
    mism, errs, nsh = C.eval_cases("C04", "cases", HX.IMPORTS, "hexary_multi_run", "nat * list (nat * hop)", terms, shard=shard)
    R.shards, R.coq_errors = nsh, errs
    R.shards_ok = nsh - len(errs) - len({m // shard for m in mism})
    for m in mism[:3]:
        R.corr_mismatches.append(("impl≠model at shared-store history (results / roots / db digest, incl. failing writes)", cases[m],
                                  {"impl": run_and_check(cases[m])[0],
                                   "model": C.eval_show("C04", "cases", HX.IMPORTS, "hexary_multi_run", "nat * list (nat * hop)", terms[m])[-2500:]}))

    def search():
        r2 = random.Random(seed + 23)
        for _ in range(1500):
            c = gen_case(r2, "thorough")
            _, bad, _ = run_and_check(c)
            if bad:
                return bad, c
        return None

    return R.finish(RULE, search=search)


def replay(payload):
    case = payload["case"]
    if case.get("snapshot"):
        for f in ("prior", "later"):
            case[f] = [HX.tuplify(o) for o in case[f]]
        bad = run_snapshot(case)
        print("replay:", "VIOLATES: " + bad if bad else "holds")
        return 1 if bad else 0
    if case.get("overlap"):
        for f in ("prior", "a", "b"):
            case[f] = [HX.tuplify(o) for o in case[f]]
        bad = run_overlap(case)
        print("replay:", "VIOLATES: " + bad if bad else "holds")
        return 1 if bad else 0
    case["ops"] = [(i, HX.tuplify(o)) for i, o in case["ops"]]
    _, bad, _ = run_and_check(case)
    print("replay:", "VIOLATES: " + bad if bad else "holds")
    return 1 if bad else 0
