"""C16 — path and node encodings are exact bijections matching their specifications."""
import itertools
import random

from .. import common as C
from ..common import Exc, cb, cbool, clist, cnibs, cobs

IMPORTS = ("From Coq Require Import List NArith ZArith.\nFrom PyTrie.Base Require Import Bytes Result Nibbles Rlp CodecRun.\n"
           "From PyTrie.Binary Require Import BinEnc.\nFrom PyTrie.Hexary Require Import Raw.")
CASE_T = "cop"
RULE = ("exhaustive: every nibble sequence of length <= 3 (quick) / <= 4 (thorough) x both flags through encode/decode/HP, every bit "
        "string of length <= 9 / <= 13 through the key-path packing; random beyond (<= 70 nibbles, <= 300 bits, byte strings <= 80); "
        "malformed stream: nibble 16 inside, nibbles > 16, odd lengths, non-canonical HP bytes, every node type byte x lengths around "
        "1/33/34/65/66, hexary nodes of every shape; Keccak-256 and RLP against eth_hash / rlp. non-trivial = distinct cases other "
        "than the empty input")


def cbits(l):
    return clist([cbool(x) for x in l])


def citem(n):
    if isinstance(n, (bytes, bytearray)):
        return f"(RStr {cb(n)})"
    return f"(RList {clist([citem(x) for x in n])})"


def guard(f):
    try:
        return f()
    except Exception as e:
        if type(e).__name__ in ("DecodingError", "DeserializationError"):
            return Exc(21)
        return C.exc_obs(e, with_attrs=False)


def bits_of(b):
    return [bool(x) for x in b]


def raw_obs(n):
    return bytes(n) if isinstance(n, (bytes, bytearray)) else [raw_obs(x) for x in n]


def run_impl(op):
    from trie.utils import nibbles as NB, binaries as BI, nodes as ND
    from eth_hash.auto import keccak
    import rlp
    k = op[0]
    if k == "CEncode":
        return guard(lambda: bytes(NB.encode_nibbles(tuple(op[1]))))
    if k == "CDecode":
        return guard(lambda: [int(x) for x in NB.decode_nibbles(op[1])])
    if k == "CHP":
        flagged = tuple(op[1]) + ((16,) if op[2] else ())
        return guard(lambda: bytes(NB.encode_nibbles(flagged)))
    if k == "CN2B":
        return guard(lambda: bytes(NB.nibbles_to_bytes(tuple(op[1]))))
    if k == "CB2N":
        return guard(lambda: [int(x) for x in NB.bytes_to_nibbles(op[1])])
    if k == "CBinEnc":
        return guard(lambda: bits_of(BI.encode_to_bin(op[1])))
    if k == "CBinDec":
        return guard(lambda: bytes(BI.decode_from_bin(bytes(op[1]))))
    if k == "CKpEnc":
        return guard(lambda: bytes(BI.encode_from_bin_keypath(bytes(op[1]))))
    if k == "CKpDec":
        return guard(lambda: bits_of(BI.decode_to_bin_keypath(op[1])))
    if k == "CParse":
        def f():
            t, a, b = ND.parse_node(op[1])
            if t == 0:
                return [0, bits_of(a), bytes(b)]
            if t == 1:
                return [1, bytes(a), bytes(b)]
            return [2, None, bytes(b)]
        return guard(f)
    if k == "CEncKV":
        return guard(lambda: bytes(ND.encode_kv_node(bytes(op[1]), op[2])))
    if k == "CEncBranch":
        return guard(lambda: bytes(ND.encode_branch_node(op[1], op[2])))
    if k == "CEncLeaf":
        return guard(lambda: bytes(ND.encode_leaf_node(op[1])))
    if k == "CNodeType":
        return guard(lambda: int(ND.get_node_type(unfreeze(op[1]))))
    if k == "CExtractKey":
        return guard(lambda: [int(x) for x in ND.extract_key(unfreeze(op[1]))])
    if k == "CLeafKey":
        return guard(lambda: bytes(ND.compute_leaf_key(tuple(op[1]))))
    if k == "CExtKey":
        return guard(lambda: bytes(ND.compute_extension_key(tuple(op[1]))))
    if k == "CKeccak":
        return bytes(keccak(op[1]))
    if k == "CRlpEnc":
        return bytes(rlp.codec.encode_raw(unfreeze(op[1])))
    if k == "CRlpDec":
        return guard(lambda: raw_obs(rlp.decode(op[1])))
    raise ValueError(op)


def run_impl_list(op):
    """same call with the nibble sequence passed as a list instead of a tuple"""
    from trie.utils import nibbles as NB, nodes as ND
    k = op[0]
    if k == "CEncode":
        return guard(lambda: bytes(NB.encode_nibbles(list(op[1]))))
    if k == "CHP":
        return guard(lambda: bytes(NB.encode_nibbles(list(op[1]) + ([16] if op[2] else []))))
    if k == "CN2B":
        return guard(lambda: bytes(NB.nibbles_to_bytes(list(op[1]))))
    if k == "CLeafKey":
        return guard(lambda: bytes(ND.compute_leaf_key(list(op[1]))))
    return guard(lambda: bytes(ND.compute_extension_key(list(op[1]))))


class SubBytes(bytes):
    """a bytes subclass (like hexbytes.HexBytes): a legal bytes value wherever bytes are taken"""


def run_impl_sub(op):
    """same call with every bytes argument an instance of a proper subclass of bytes"""
    return run_impl(tuple(SubBytes(x) if type(x) is bytes else x for x in op))


def sub_check(op, out):
    if op[0] in ("CKeccak", "CRlpEnc") or not any(type(x) is bytes for x in op[1:]):
        return None
    alt = run_impl_sub(op)
    if alt != out:
        return f"{op[0]} behaves differently for an instance of a bytes subclass than for the same bytes: {alt!r} vs {out!r}"
    return None


def unfreeze(n):
    return bytes(n) if isinstance(n, (bytes, bytearray)) else [unfreeze(x) for x in n]


def cop(op):
    k = op[0]
    if k in ("CEncode", "CN2B", "CLeafKey", "CExtKey"):
        return f"{k} {cnibs(op[1])}"
    if k == "CHP":
        return f"CHP {cnibs(op[1])} {cbool(op[2])}"
    if k in ("CDecode", "CB2N", "CBinEnc", "CKpDec", "CParse", "CEncLeaf", "CKeccak", "CRlpDec"):
        return f"{k} {cb(op[1])}"
    if k in ("CBinDec", "CKpEnc"):
        return f"{k} {cbits(op[1])}"
    if k == "CEncKV":
        return f"CEncKV {cbits(op[1])} {cb(op[2])}"
    if k == "CEncBranch":
        return f"CEncBranch {cb(op[1])} {cb(op[2])}"
    if k in ("CNodeType", "CExtractKey", "CRlpEnc"):
        return f"{k} {citem(op[1])}"
    raise ValueError(op)


def yp_hp(x, t):
    """Yellow Paper HP, independent Python rendering (the Coq spec HP is what is proved about)."""
    f = 2 if t else 0
    if len(x) % 2 == 0:
        out = [16 * f]
        rest = x
    else:
        out = [16 * (f + 1) + x[0]]
        rest = x[1:]
    for i in range(0, len(rest), 2):
        out.append(16 * rest[i] + rest[i + 1])
    return bytes(out)


def oracle(op, out):
    """inverse / specification laws checked on the implementation directly"""
    from trie.utils import nibbles as NB, binaries as BI, nodes as ND
    k = op[0]
    if k == "CHP":
        if all(0 <= n < 16 for n in op[1]):
            if out != yp_hp(op[1], op[2]):
                return "encode_nibbles differs from the Yellow-Paper HP"
            back = NB.decode_nibbles(out)
            exp = tuple(op[1]) + ((16,) if op[2] else ())
            if tuple(back) != exp:
                return "decode_nibbles(HP(x,t)) is not (x,t)"
    elif k == "CB2N":
        if bytes(NB.nibbles_to_bytes(tuple(out))) != op[1]:
            return "nibbles_to_bytes(bytes_to_nibbles(b)) != b"
    elif k == "CBinEnc":
        if bytes(BI.decode_from_bin(bytes(out))) != op[1]:
            return "decode_from_bin(encode_to_bin(b)) != b"
    elif k == "CKpEnc":
        if list(BI.decode_to_bin_keypath(out)) != [int(x) for x in op[1]]:
            return "decode_to_bin_keypath(encode_from_bin_keypath(l)) != l"
    elif k in ("CEncKV", "CEncBranch", "CEncLeaf") and not isinstance(out, Exc) and isinstance(parse_or_exc(ND, out), str):
        return f"parse_node of a node produced by encode_*_node raised {parse_or_exc(ND, out)}"
    elif k == "CEncKV" and not isinstance(out, Exc):
        t, p, c = ND.parse_node(out)
        if (t, list(p), bytes(c)) != (0, [int(x) for x in op[1]], op[2]):
            return "parse_node(encode_kv_node) does not give the parts back"
    elif k == "CEncBranch" and not isinstance(out, Exc):
        if tuple(ND.parse_node(out)) != (1, op[1], op[2]):
            return "parse_node(encode_branch_node) does not give the parts back"
    elif k == "CEncLeaf" and not isinstance(out, Exc):
        if tuple(ND.parse_node(out)) != (2, None, op[1]):
            return "parse_node(encode_leaf_node) does not give the parts back"
    elif k == "CParse":
        b = op[1]
        must_reject = (b == b"" or b[0] > 2 or (b[0] == 1 and len(b) != 65) or (b[0] == 0 and len(b) <= 33)
                       or (b[0] == 2 and len(b) == 1))
        if must_reject != (out == Exc(2)):
            return "parse_node InvalidNode exactly for empty / unknown type byte / impossible length is violated"
    elif k == "CNodeType" and not isinstance(out, Exc):
        # the four classification predicates agree with get_node_type: exactly one holds
        node = unfreeze(op[1])
        got = []
        for f in (ND.is_blank_node, ND.is_leaf_node, ND.is_extension_node, ND.is_branch_node):
            try:
                got.append(bool(f(node)))
            except Exception as e:
                got.append(type(e).__name__)
        if got != [out == t for t in (0, 1, 2, 3)]:
            return f"is_blank/leaf/extension/branch_node = {got} disagree with get_node_type = {out}"
    elif k == "CLeafKey" and all(0 <= n < 16 for n in op[1]):
        if ND.get_node_type([out, b"v"]) != 1 or list(ND.extract_key([out, b"v"])) != list(op[1]):
            return "a leaf does not classify / yield its key path"
    elif k == "CExtKey" and all(0 <= n < 16 for n in op[1]):
        if ND.get_node_type([out, b"v" * 32]) != 2 or list(ND.extract_key([out, b"v" * 32])) != list(op[1]):
            return "an extension does not classify / yield its key path"
    return None


def gen_cases(rng, tier):
    ops = []
    maxn = 3 if tier == "quick" else 4
    for n in range(maxn + 1):
        for x in itertools.product(range(16), repeat=n):
            for t in (False, True):
                ops.append(("CHP", list(x), t))
    for n in range(3):
        for x in itertools.product(range(16), repeat=n):
            ops.append(("CLeafKey", list(x)))
            ops.append(("CExtKey", list(x)))
    maxb = 9 if tier == "quick" else 13
    for n in range(maxb + 1):
        for x in itertools.product([False, True], repeat=n):
            ops.append(("CKpEnc", list(x)))
    for b0 in range(256):
        ops.append(("CDecode", bytes([b0])))
        ops.append(("CDecode", bytes([b0, 0x5a])))
        ops.append(("CB2N", bytes([b0])))
        ops.append(("CBinEnc", bytes([b0])))
        ops.append(("CKpDec", bytes([b0])))
        ops.append(("CKpDec", bytes([b0, 0xa5])))
    ops.append(("CDecode", b""))
    ops.append(("CKpDec", b""))
    for nbits in (255, 256, 257, 260, 261, 264, 272, 512, 520):
        ops.append(("CEncKV", [(i * 7 + nbits) % 3 == 0 for i in range(nbits)], bytes([nbits % 256]) * 32))
    # binary nodes: every type byte x EVERY length up to 70 (the impossible lengths are a range, not a few boundary points),
    # with bodies whose packed key path decodes (0x00.., 0x10.., 0x81..) and bodies that do not
    for tb in (0, 1, 2, 3, 255):
        for ln in range(1, 71):
            for fill in (0x00, 0x10, 0x81, 0xab):
                if tb in (3, 255) and fill != 0x00:
                    continue
                ops.append(("CParse", bytes([tb]) + bytes([fill]) * (ln - 1)))
    nr = 300 if tier == "quick" else 4000
    for _ in range(nr):
        r = rng.random()
        if r < 0.2:
            ops.append(("CHP", [rng.randrange(16) for _ in range(rng.randint(4, 70))], rng.random() < 0.5))
        elif r < 0.3:
            # malformed nibble tuples: terminator inside, values > 16, odd lengths for N2B
            ns = [rng.randrange(16) for _ in range(rng.randint(0, 8))]
            if ns:
                ns[rng.randrange(len(ns))] = rng.choice([16, 16, 17, 255])
            ops.append((rng.choice(["CEncode", "CN2B", "CLeafKey", "CExtKey"]), ns))
        elif r < 0.35:
            ops.append(("CN2B", [rng.randrange(16) for _ in range(rng.randint(0, 9))]))
        elif r < 0.45:
            ops.append(("CKpEnc", [rng.random() < 0.5 for _ in range(rng.randint(10, 300))]))
        elif r < 0.5:
            ops.append(("CBinDec", [rng.random() < 0.5 for _ in range(rng.randint(0, 40))]))
        elif r < 0.6:
            b = bytes(rng.randrange(256) for _ in range(rng.randint(0, 80)))
            ops.append((rng.choice(["CB2N", "CBinEnc", "CDecode", "CKpDec"]), b))
        elif r < 0.75:
            tb = rng.choice([0, 0, 1, 1, 2, 2, 3, 255])
            ln = rng.choice([1, 2, 32, 33, 34, 35, 64, 65, 66, 70])
            ops.append(("CParse", bytes([tb]) + bytes(rng.randrange(256) for _ in range(ln - 1))))
        elif r < 0.8:
            # key paths of every size class: short, around the 32-byte-key mark (256 bits), and well beyond it (binary-trie keys
            # are arbitrary byte strings)
            ops.append(("CEncKV", [rng.random() < 0.5 for _ in range(rng.choice([rng.randint(0, 40), rng.randint(250, 270), rng.randint(271, 700)]))],
                        bytes(rng.randrange(256) for _ in range(rng.choice([32, 32, 32, 31, 33])))))
        elif r < 0.84:
            ops.append(("CEncBranch", bytes(rng.randrange(256) for _ in range(rng.choice([32, 32, 31]))),
                        bytes(rng.randrange(256) for _ in range(rng.choice([32, 32, 33])))))
        elif r < 0.87:
            ops.append(("CEncLeaf", bytes(rng.randrange(256) for _ in range(rng.randint(0, 40)))))
        elif r < 0.93:
            ops.append(("CKeccak", bytes(rng.randrange(256) for _ in range(rng.choice([0, 1, 31, 32, 55, 56, 64, 65, 135, 136, 137, 200, 272, 300])))))
        else:
            ops.append(("CRlpEnc", gen_item(rng, 2)))
    # hexary node shapes
    from trie.utils.nodes import compute_leaf_key, compute_extension_key
    for ns in ([], [1], [1, 2], [15, 0, 3]):
        ops.append(("CNodeType", [compute_leaf_key(ns), b"value"]))
        ops.append(("CExtractKey", [compute_leaf_key(ns), b"value"]))
        ops.append(("CNodeType", [compute_extension_key(ns), b"h" * 32]))
        ops.append(("CExtractKey", [compute_extension_key(ns), b"h" * 32]))
    ops.append(("CNodeType", b""))
    ops.append(("CNodeType", [b""] * 17))
    ops.append(("CNodeType", [b"\x07" * 32] * 2 + [b""] * 14 + [b"branch value"]))
    ops.append(("CNodeType", [[b"\x20", b"v"]] + [b""] * 15 + [b""]))
    ops.append(("CNodeType", [b""] * 3))
    ops.append(("CNodeType", [b"", b"x"]))
    for it in ([b"\x20", b"v"], [[b"\x20", b"v"], b""], b"\x7f", b"\x80", b"a" * 55, b"a" * 56, b"a" * 300,
               [b"a" * 30, b"b" * 30], [[b""] * 17, [b"\x00" * 32] * 16 + [b""]]):
        ops.append(("CRlpEnc", it))
        import rlp
        ops.append(("CRlpDec", bytes(rlp.codec.encode_raw(it))))
    return ops


def decode_node_check():
    """a hexary node READ FROM THE DATABASE (decode_node of its record) classifies as what was written - the blank node's
    record rlp(b"") = 0x80 included"""
    import rlp
    from trie.utils import nodes as ND
    from trie.utils.nodes import compute_leaf_key, compute_extension_key
    shapes = [(b"", 0), ([compute_leaf_key([1, 2]), b"v" * 40], 1), ([compute_extension_key([3]), b"h" * 32], 2),
              ([b""] * 16 + [b"val"], 3), ([[compute_leaf_key([]), b"x"]] + [b""] * 15 + [b""], 3)]
    for node, ty in shapes:
        rec = rlp.encode(node)
        try:
            back = ND.decode_node(rec)
            got = ND.get_node_type(back)
        except Exception as e:
            return f"decode_node of the stored record of a node of type {ty} raised {type(e).__name__}: {e}"
        if got != ty or back != node:
            return f"decode_node of the stored record of a node of type {ty} gives type {got}"
    return None


def parse_or_exc(ND, node):
    try:
        return ND.parse_node(node)
    except Exception as e:
        return f"{type(e).__name__}: {e}"


def gen_item(rng, depth):
    if depth == 0 or rng.random() < 0.5:
        return bytes(rng.randrange(256) for _ in range(rng.choice([0, 1, 1, 2, 20, 32, 54, 55, 56, 57, 120, 260])))
    return [gen_item(rng, depth - 1) for _ in range(rng.choice([0, 1, 2, 3, 17]))]


def check(tier, seed):
    R = C.Reporter("C16", tier, seed)
    R.gate = C.proof_gate("C16")
    rng = random.Random(seed)
    ops = gen_cases(rng, tier)
    dn = decode_node_check()
    if dn:
        R.spec_violations.append((dn, {"op": ["decode_node"]}))
    terms = []
    for op in ops:
        out = run_impl(op)
        if op[0] in ("CEncode", "CHP", "CN2B", "CLeafKey", "CExtKey"):
            # the functions take any nibble sequence: a list must behave like a tuple
            alt = run_impl_list(op)
            if alt != out:
                R.spec_violations.append((f"{op[0]} behaves differently for a list than for a tuple of the same nibbles",
                                          {"op": op, "impl": out, "impl_list": alt}))
        R.evaluations += 1
        R.count(op[0] + ("_err" if isinstance(out, Exc) else ""))
        bad = oracle(op, out) or sub_check(op, out)
        if bad:
            R.spec_violations.append((bad, {"op": op, "impl": out}))
        if len(op[1]) > 0:
            R.nontrivial.add(C.case_key(op))
        terms.append(f"({cop(op)}, {cobs(out)})")
    R.samples = [C.to_json(o) for o in (ops[37], ops[len(ops) // 2], ops[-30])]
    shard = 800 if tier == "quick" else 1500
    mism, errs, nsh = C.eval_cases("C16", "cases", IMPORTS, "c16_run", CASE_T, terms, shard=shard)
    R.shards, R.coq_errors = nsh, errs
    R.shards_ok = nsh - len(errs) - len({m // shard for m in mism})
    for m in mism[:3]:
        R.corr_mismatches.append((f"impl≠model at {ops[m][0]}", {"op": ops[m]},
                                  {"impl": run_impl(ops[m]),
                                   "model": C.eval_show("C16", "cases", IMPORTS, "c16_run", CASE_T, terms[m])}))
        # for the pure codecs a disagreement with the (proved) model on a valid input is itself the failing input
        R.spec_violations.append((f"{ops[m][0]} differs from its specification (model proved equal to HP / inverse laws)",
                                  {"op": ops[m], "impl": run_impl(ops[m])}))
    extra = {"exhaustive_part": f"nibble sequences <= {3 if tier == 'quick' else 4} x 2 flags; bit strings <= {9 if tier == 'quick' else 13}; all first bytes"}
    if tier == "thorough":
        mods = " ".join(f"PyTrie.Properties.C{i:02d}" for i in range(1, 19)) + " PyTrie.Properties.Findings"
        rc, out = C.run(["bash", "-c", "cd " + C.COQ + " && coqchk -silent -o -Q theories PyTrie " + mods + " 2>&1 | tail -40"], 7200)
        if rc != 0 or "Axioms: <none>" not in " ".join(out.split()):
            R.notes.append("coqchk did not report 'Axioms: <none>' for the whole development")
            R.coq_errors.append("coqchk: " + out[-1500:])
        extra["coqchk"] = out[-3000:]
    return R.finish(RULE, extra_cov=extra)


def replay(payload):
    op = payload["case"]["op"]
    op = tuple(op)
    if op == ("decode_node",):
        bad = decode_node_check()
        print("replay:", "VIOLATES: " + bad if bad else "holds")
        return 1 if bad else 0
    out = run_impl(op)
    bad = oracle(op, out) or sub_check(op, out)
    if not bad and op[0] in ("CEncode", "CHP", "CN2B", "CLeafKey", "CExtKey") and run_impl_list(op) != out:
        bad = "behaves differently for a list than for a tuple of the same nibbles"
    print("replay:", "VIOLATES: " + bad if bad else "holds", C.to_json(out))
    return 1 if bad else 0
