"""C18 — invalid arguments are rejected up front and change nothing."""
import random

from .. import common as C
from .. import hexrun as HX
from .. import binrun as BX
from ..common import Exc, cb, cbool, clist, cnat, cobs, cZ
from . import c14

IMPORTS = ("From Coq Require Import List NArith ZArith.\nFrom PyTrie.Base Require Import Bytes Result AMap Nibbles Rlp.\n"
           "From PyTrie.Hexary Require Import Raw D Run.\nFrom PyTrie.Binary Require Import BinEnc BinD BinRun.\n"
           "From PyTrie.Smt Require Import Smt SmtRun.\nFrom PyTrie.Api Require Import Api.")
RULE = ("finite and enumerated completely: every public entry point of HexaryTrie (method and dict syntax, constructor, at_root, "
        "get_from_proof, get_proof, traverse, traverse_from), BinaryTrie, trie.branches, SparseMerkleTree (constructor, from_db), "
        "calc_root, SparseMerkleProof (constructor, update), HexaryTrieFog and Nibbles x every argument position x every ill-typed kind "
        "(None, str, int, bytearray, memoryview, list, tuple) and wrong length, each after 3 prior histories (prune on/off); observed: "
        "exception class; root, database, reference counts and a full read-back before/after. The list of public entry points is "
        "re-derived from the classes on every run and compared with the list the harness covers. non-trivial = all cases (each is a "
        "distinct entry point / position / kind / history)")

BAD_KINDS = [("None", lambda: None), ("str", lambda: "ab"), ("int", lambda: 7), ("bytearray", lambda: bytearray(b"ab")),
             ("memoryview", lambda: memoryview(b"ab")), ("list", lambda: [1, 2]), ("tuple", lambda: (1, 2)),
             # falsy / empty look-alikes of b"" (an empty bytearray even compares equal to b"")
             ("empty_bytearray", lambda: bytearray()), ("empty_str", lambda: ""), ("zero", lambda: 0), ("false", lambda: False),
             ("empty_list", lambda: []), ("empty_tuple", lambda: ()), ("empty_memoryview", lambda: memoryview(b""))]
BAD_NIBS = [("nibble16", (1, 16), 14), ("nibble_neg", (-1,), 14), ("nibble_str", ("a",), 14), ("notseq_int", 5, 13), ("notseq_str", "ab", 13),
            ("notseq_none", None, 13)]

# public API covered; compared with dir() of the classes so that a new entry point is noticed
COVERED = {
    "HexaryTrie": {"get", "set", "delete", "exists", "get_proof", "get_from_proof", "traverse", "traverse_from", "at_root",
                   "squash_changes", "root_node", "ref_count", "regenerate_ref_count", "get_node", "db", "root_hash", "is_pruning",
                   "BLANK_NODE", "BLANK_NODE_HASH"},
    "BinaryTrie": {"get", "set", "delete", "exists", "delete_subtrie", "root_node", "db", "root_hash"},
    "SparseMerkleTree": {"get", "set", "delete", "exists", "branch", "from_db", "db", "root_hash", "depth"},
    "SparseMerkleProof": {"update", "key", "value", "branch", "root_hash"},
    "HexaryTrieFog": {"explore", "mark_all_complete", "nearest_unknown", "nearest_right", "is_complete", "serialize", "deserialize"},
}


def public_api_drift():
    from trie import HexaryTrie, BinaryTrie
    from trie.smt import SparseMerkleTree, SparseMerkleProof
    from trie.fog import HexaryTrieFog
    import trie.branches as BR
    out = []
    for cls in (HexaryTrie, BinaryTrie, SparseMerkleTree, SparseMerkleProof, HexaryTrieFog):
        pub = {n for n in dir(cls) if not n.startswith("_")}
        inst = set(getattr(cls, "__slots__", ()))
        pub |= {n for n in inst if not n.startswith("_")}
        new = pub - COVERED[cls.__name__]
        if new:
            out.append(f"{cls.__name__}: uncovered public names {sorted(new)}")
    fns = {n for n in dir(BR) if not n.startswith("_") and callable(getattr(BR, n)) and getattr(getattr(BR, n), "__module__", "") == "trie.branches"}
    new = fns - {"check_if_branch_exist", "get_branch", "if_branch_valid", "get_trie_nodes", "get_witness_for_key_prefix"}
    if new:
        out.append(f"trie.branches: uncovered functions {sorted(new)}")
    return out


def snap_hex(t, backing):
    rc = None if t._ref_count is None else {k: c for k, c in t._ref_count.items() if c}
    return (bytes(t.root_hash), dict(backing), rc, t._pending_prune_keys)


def readback(t, keys):
    out = []
    for k in keys:
        try:
            out.append(t.get(k))
        except Exception as e:
            out.append(type(e).__name__)
    return out


def guard(f):
    try:
        f()
        return None
    except Exception as e:
        return C.exc_obs(e, with_attrs=False)


def hexary_calls(t):
    """(label, callable(bad) , model constructor(bad?) ) for each byte-string argument position"""
    from trie import HexaryTrie
    good = b"\x01"

    def M(name, *args):
        return (name,) + args
    calls = [
        ("get.key", lambda x: t.get(x), lambda: M("HGet", "BAD")),
        ("getitem.key", lambda x: t[x], lambda: M("HGet", "BAD")),
        ("exists.key", lambda x: t.exists(x), lambda: M("HExists", "BAD")),
        ("contains.key", lambda x: x in t, lambda: M("HExists", "BAD")),
        ("set.key", lambda x: t.set(x, b"v"), lambda: M("HSet", "BAD", b"v")),
        ("set.value", lambda x: t.set(good, x), lambda: M("HSet", good, "BAD")),
        ("setitem.key", lambda x: t.__setitem__(x, b"v"), lambda: M("HSet", "BAD", b"v")),
        ("setitem.value", lambda x: t.__setitem__(good, x), lambda: M("HSet", good, "BAD")),
        ("delete.key", lambda x: t.delete(x), lambda: M("HDelete", "BAD")),
        ("delitem.key", lambda x: t.__delitem__(x), lambda: M("HDelete", "BAD")),
        ("get_proof.key", lambda x: t.get_proof(x), lambda: M("HGetProof", "BAD")),
        ("get_from_proof.root", lambda x: HexaryTrie.get_from_proof(x, good, []), lambda: M("HFromProof", "BAD", good)),
        ("get_from_proof.key", lambda x: HexaryTrie.get_from_proof(t.root_hash, x, []), lambda: M("HFromProof", bytes(t.root_hash), "BAD")),
        ("ctor.root_hash", lambda x: HexaryTrie(t.db, x), lambda: M("HNew", "BAD", False, False)),
    ]
    return calls


def run_hexary(prune, prior, rng, damaged=False):
    """returns (model ops, impl outs, violation). damaged: every node is removed from the database after the prior writes (the
    root hash stays), so any database read fails: an ill-typed / ill-sized argument is refused UP FRONT, with the same class,
    before the database is consulted (the caller discards ops/outs of such a run: oracle only)"""
    from trie import HexaryTrie
    backing = C.FailingDict()
    t = HexaryTrie(backing, prune=prune)
    m = {}
    for w in prior:
        HX.step(t, w, backing)
        HX.apply_model(m, w)
    if damaged:
        backing.clear()
    keys = HX.related_keys(m.keys())[:8]
    ops, outs = [], []
    bad = None

    def record(label, f, mop, expect_tag):
        nonlocal bad
        before = snap_hex(t, backing)
        rb = readback(t, keys)
        out = guard(f)
        after = snap_hex(t, backing)
        if bad is None:
            if out is None or out.tag != expect_tag:
                bad = f"{label}: expected exception tag {expect_tag}, got {out!r}"
            elif before != after:
                bad = f"{label}: refused call changed root / database / reference counts / pending table"
            elif readback(t, keys) != rb:
                bad = f"{label}: later results differ after the refused call"
        ops.append(mop)
        outs.append(out)
        ops.append(("HState",))
        outs.append(None if damaged else HX.state_obs(t))

    for label, f, mk in hexary_calls(t):
        for kname, kmk in BAD_KINDS:
            record(f"{label}<{kname}>", (lambda f=f, kmk=kmk: f(kmk())), mk(), 1)
    if damaged:
        return ops, outs, bad and "with every node missing from the database: " + bad
    # an ill-typed VALUE under keys that would split existing nodes (they diverge from a stored key inside its leaf /
    # extension, or extend it): the refusal must come before any node is rewritten
    for k in sorted(m)[:3]:
        for k2 in ((k[:-1] + bytes([k[-1] ^ 0x01])) if k else b"\x05", k + b"\x00", (bytes([k[0] ^ 0x10]) + k[1:]) if k else b"\x15"):
            if k2 in m:
                continue
            for kname, kmk in BAD_KINDS[:2]:
                record(f"set.value<{kname}>@{k2.hex()}", (lambda k2=k2, kmk=kmk: t.set(k2, kmk())), ("HSet", k2, "BAD"), 1)
    for nname, val, tag in BAD_NIBS:
        record(f"traverse<{nname}>", (lambda val=val: t.traverse(val)), ("HTraverse", nname), tag)
        try:
            root = t.root_node
            b4 = snap_hex(t, backing)
            out = guard(lambda: t.traverse_from(root, val))
            if bad is None and (out is None or out.tag != tag or snap_hex(t, backing) != b4):
                bad = f"traverse_from<{nname}>: not refused with tag {tag} / changed state"
        except Exception:
            pass
    # elements that merely CONVERT to a nibble (a fractional float, a digit string, digit bytes) are not nibbles: ValueError
    for val in ((1.5,), ("1",), (b"2",), (3, "7"), (0, 2.25)):
        for label, call in (("traverse", lambda: t.traverse(val)), ("traverse_from", lambda: t.traverse_from(t.root_node, val))):
            b4 = snap_hex(t, backing)
            out = guard(call)
            if bad is None and (out is None or out.tag not in (13, 14) or snap_hex(t, backing) != b4):
                bad = f"{label}({val!r}): a malformed nibble sequence was not refused with TypeError / ValueError: {out!r}"
    # at_root on a pruning trie; ref_count to a non-pruning trie
    if prune:
        record("at_root(pruning)", lambda: t.at_root(t.root_hash).__enter__(), ("HAtRootGet", bytes(t.root_hash), b"\x01"), 1)
    else:
        for kname, kmk in BAD_KINDS:
            record(f"at_root.root<{kname}>", (lambda kmk=kmk: t.at_root(kmk()).__enter__()), ("HAtRootGet", "BAD", b"\x01"), 1)
    # the trie handed out by squash_changes is a pruning trie whatever the outer trie is: a snapshot of it is refused too
    # (also one level further down); the block is then abandoned, so nothing of this reaches the model's history
    try:
        with t.squash_changes() as b:
            for lvl, bt in (("batch trie", b),):
                out = guard(lambda bt=bt: bt.at_root(bt.root_hash).__enter__())
                if bad is None and (out is None or out.tag != 1):
                    bad = f"at_root on the {lvl} of squash_changes (a pruning trie) was not refused with ValidationError: {out!r}"
            with b.squash_changes() as b2:
                out = guard(lambda: b2.at_root(b2.root_hash).__enter__())
                if bad is None and (out is None or out.tag != 1):
                    bad = f"at_root on a nested batch trie (a pruning trie) was not refused with ValidationError: {out!r}"
                raise C.Abort()
    except C.Abort:
        pass
    if not prune:
        # the ref_count attribute of a non-pruning trie is refused (bare Exception in the source)
        out = guard(lambda: t.ref_count)
        if bad is None and (out is None or out.tag != 18):
            bad = f"ref_count of a non-pruning trie: expected an Exception, got {out!r}"
    record("ctor(ref_count, prune=False)", lambda: HexaryTrie(backing, prune=False, ref_count={}), ("HNew", bytes(t.root_hash), False, True), 14)
    # "all subsequent results are exactly what they would have been": after all these refusals the trie still accepts VALID
    # writes (a refusal must not leave an operation-in-progress marker or anything else behind) - on the trie itself and on a
    # batch trie that has just refused an ill-typed write
    if bad is None:
        try:
            with t.squash_changes() as b:
                for f in (lambda: b.set(b"\x01", "not bytes"), lambda: b.set(5, b"v"), lambda: b.delete(None)):
                    out = guard(f)
                    if out is None or out.tag != 1:
                        bad = f"ill-typed write on a batch trie was not refused with ValidationError: {out!r}"
                b.set(b"\x77\x01", b"later" * 8)
                if b.get(b"\x77\x01") != b"later" * 8:
                    bad = "a valid write after refused ones on a batch trie did not take effect"
                raise C.Abort()
        except C.Abort:
            pass
        except Exception as e:
            bad = f"a VALID write on a batch trie after refused ill-typed writes raised {type(e).__name__}: {e}"
    if bad is None:
        before = snap_hex(t, backing)
        try:
            t.set(b"\x77\x02", b"later" * 8)
            ok1 = t.get(b"\x77\x02") == b"later" * 8
            t.delete(b"\x77\x02")
            if not ok1 or snap_hex(t, backing)[0] != before[0]:
                bad = "a valid set + delete after the refused calls does not bring the trie back to the same root"
        except Exception as e:
            bad = f"a VALID write after the refused calls raised {type(e).__name__}: {e}"
    return ops, outs, bad


def chapi(op):
    def a(x):
        return "PBad" if isinstance(x, str) and x == "BAD" else f"(PB {cb(x)})"
    k = op[0]
    if k in ("HGet", "HExists", "HDelete", "HGetProof"):
        return f"{k} {a(op[1])}"
    if k == "HSet":
        return f"HSet {a(op[1])} {a(op[2])}"
    if k == "HTraverse":
        table = {"nibble16": "(PN [1; 16]%Z)", "nibble_neg": "(PN [(-1)]%Z)", "nibble_str": "(PN [99]%Z)"}
        return f"HTraverse {table.get(op[1], 'PNotSeq')}"
    if k in ("HAtRootGet", "HFromProof"):
        return f"{k} {a(op[1])} {a(op[2])}"
    if k == "HNew":
        return f"HNew {a(op[1])} {cbool(op[2])} {cbool(op[3])}"
    if k == "HState":
        return "HState"
    raise ValueError(op)


# ---------------------------------------------------------------------------
def run_binary(prior, damaged=False):
    from trie.binary import BinaryTrie
    from trie import branches as BR
    t = BinaryTrie({})
    for w in prior:
        BX.step(t, w)
    root_node = t.db.get(t.root_hash)
    if damaged:
        t.db.clear()
    ops, outs = [], []
    bad = None
    good = b"\x12"
    calls = [
        ("get.key", lambda x: t.get(x), lambda: ("BAGet", "BAD")), ("getitem.key", lambda x: t[x], lambda: ("BAGet", "BAD")),
        ("exists.key", lambda x: t.exists(x), lambda: ("BAExists", "BAD")), ("contains.key", lambda x: x in t, lambda: ("BAExists", "BAD")),
        ("set.key", lambda x: t.set(x, b"v"), lambda: ("BASet", "BAD", b"v")), ("set.value", lambda x: t.set(good, x), lambda: ("BASet", good, "BAD")),
        ("setitem.key", lambda x: t.__setitem__(x, b"v"), lambda: ("BASet", "BAD", b"v")),
        ("setitem.value", lambda x: t.__setitem__(good, x), lambda: ("BASet", good, "BAD")),
        ("delete.key", lambda x: t.delete(x), lambda: ("BADelete", "BAD")), ("delitem.key", lambda x: t.__delitem__(x), lambda: ("BADelete", "BAD")),
        ("delete_subtrie.key", lambda x: t.delete_subtrie(x), lambda: ("BADeleteSubtrie", "BAD")),
        ("ctor.root_hash", lambda x: BinaryTrie(t.db, x), lambda: ("BANew", "BAD")),
        ("check_if_branch_exist.key", lambda x: BR.check_if_branch_exist(t.db, t.root_hash, x), lambda: ("BABranchExist", "BAD")),
        ("get_branch.key", lambda x: BR.get_branch(t.db, t.root_hash, x), lambda: ("BAGetBranch", "BAD")),
        ("get_witness.key", lambda x: BR.get_witness_for_key_prefix(t.db, t.root_hash, x), lambda: ("BAWitness", "BAD")),
    ]
    if root_node is not None:
        node = root_node
        calls.append(("if_branch_valid.key(value)", lambda x: BR.if_branch_valid([node], t.root_hash, x, b"x"), lambda: ("BABranchValid", "BAD", True)))
        calls.append(("if_branch_valid.key(None)", lambda x: BR.if_branch_valid([node], t.root_hash, x, None), lambda: ("BABranchValid", "BAD", False)))
    for label, f, mk in calls:
        for kname, kmk in BAD_KINDS:
            before = (bytes(t.root_hash), dict(t.db))
            out = guard(lambda: f(kmk()))
            if bad is None:
                if out != Exc(1):
                    bad = f"binary {label}<{kname}>: expected ValidationError, got {out!r}"
                elif (bytes(t.root_hash), dict(t.db)) != before:
                    bad = f"binary {label}<{kname}>: refused call changed the trie"
            ops.append(mk())
            outs.append(out)
            ops.append(("BAState",))
            outs.append(None if damaged else BX.step(t, ("state",)))
    return ops, outs, bad and damaged and "with every node missing from the database: " + bad or bad


def cbapi(op):
    def a(x):
        return "PBad" if isinstance(x, str) and x == "BAD" else f"(PB {cb(x)})"
    if op[0] == "BASet":
        return f"BASet {a(op[1])} {a(op[2])}"
    if op[0] == "BABranchValid":
        return f"BABranchValid {a(op[1])} {cbool(op[2])}"
    if op[0] == "BAState":
        return "BAState"
    return f"{op[0]} {a(op[1])}"


# ---------------------------------------------------------------------------
def run_smt(ks, prior, damaged=False):
    from trie.smt import SparseMerkleTree, SparseMerkleProof, calc_root
    t = SparseMerkleTree(key_size=ks)
    for op in prior:
        t.set(op[1], op[2])
    if damaged:
        t.db.clear()
    ops, outs = [], []
    bad = None
    good = b"\x05" * ks
    zero = b"\x00" * 32

    def rec(label, f, mop):
        nonlocal bad
        before = (bytes(t.root_hash), dict(t.db))
        out = guard(f)
        if bad is None:
            if out != Exc(1):
                bad = f"smt {label}: expected ValidationError, got {out!r}"
            elif (bytes(t.root_hash), dict(t.db)) != before:
                bad = f"smt {label}: refused call changed the tree"
        ops.append(mop)
        outs.append(out)
        ops.append(("SAState",))
        outs.append(bytes(t.root_hash))

    proof = SparseMerkleProof(b"\x00" * ks, b"", [zero] * (8 * ks))
    for kname, kmk in BAD_KINDS:
        rec(f"get.key<{kname}>", lambda: t.get(kmk()), ("SAGet", "BAD"))
        rec(f"getitem.key<{kname}>", lambda: t[kmk()], ("SAGet", "BAD"))
        rec(f"exists.key<{kname}>", lambda: t.exists(kmk()), ("SAExists", "BAD"))
        rec(f"contains.key<{kname}>", lambda: kmk() in t, ("SAExists", "BAD"))
        rec(f"branch.key<{kname}>", lambda: t.branch(kmk()), ("SABranch", "BAD"))
        rec(f"set.key<{kname}>", lambda: t.set(kmk(), b"v"), ("SASet", "BAD", b"v"))
        rec(f"set.value<{kname}>", lambda: t.set(good, kmk()), ("SASet", good, "BAD"))
        rec(f"setitem.value<{kname}>", lambda: t.__setitem__(good, kmk()), ("SASet", good, "BAD"))
        rec(f"delete.key<{kname}>", lambda: t.delete(kmk()), ("SADelete", "BAD"))
        rec(f"delitem.key<{kname}>", lambda: t.__delitem__(kmk()), ("SADelete", "BAD"))
        rec(f"calc_root.key<{kname}>", lambda: calc_root(kmk(), b"v", [zero] * 8), ("SACalcRoot", "BAD", b"v", 8))
        rec(f"calc_root.value<{kname}>", lambda: calc_root(good, kmk(), [zero] * (8 * ks)), ("SACalcRoot", good, "BAD", 8 * ks))
        rec(f"from_db.root<{kname}>", lambda: SparseMerkleTree.from_db(t.db, kmk(), key_size=ks), ("SAFromDb", "BAD"))
        rec(f"proof.key<{kname}>", lambda: SparseMerkleProof(kmk(), b"v", [zero] * 8), ("SAProofNew", "BAD", b"v", 8))
        rec(f"proof.value<{kname}>", lambda: SparseMerkleProof(good, kmk(), [zero] * (8 * ks)), ("SAProofNew", good, "BAD", 8 * ks))
        rec(f"proof.update.key<{kname}>", lambda: proof.update(kmk(), b"v", [zero] * (8 * ks)), ("SAProofUpdate", "BAD"))
    for wrong in (good + b"\x00", good[:-1]):
        rec("get.key<len>", lambda: t.get(wrong), ("SAGet", wrong))
        rec("exists.key<len>", lambda: t.exists(wrong), ("SAExists", wrong))
        rec("branch.key<len>", lambda: t.branch(wrong), ("SABranch", wrong))
        rec("set.key<len>", lambda: t.set(wrong, b"v"), ("SASet", wrong, b"v"))
        rec("delete.key<len>", lambda: t.delete(wrong), ("SADelete", wrong))
        rec("proof.update.key<len>", lambda: proof.update(wrong, b"v", [zero] * (8 * ks)), ("SAProofUpdate", wrong))
    rec("calc_root.branch<len>", lambda: calc_root(good, b"v", [zero] * (8 * ks - 1)), ("SACalcRoot", good, b"v", 8 * ks - 1))
    rec("proof.branch<len>", lambda: SparseMerkleProof(good, b"v", [zero] * (8 * ks + 1)), ("SAProofNew", good, b"v", 8 * ks + 1))
    rec("from_db.root<len>", lambda: SparseMerkleTree.from_db(t.db, b"\x01" * 31, key_size=ks), ("SAFromDb", b"\x01" * 31))
    if bad is None and (proof.value != b"" or list(proof.branch) != [zero] * (8 * ks)):
        bad = "a refused SparseMerkleProof.update changed the proof"
    if damaged:
        return ops, outs, bad and "with every node missing from the database: " + bad
    for size in (0, 33, -1):
        out = guard(lambda: SparseMerkleTree(key_size=size))
        if bad is None and out != Exc(1):
            bad = f"SparseMerkleTree(key_size={size}) not refused with ValidationError"
        # the other way to obtain a tree
        out = guard(lambda: SparseMerkleTree.from_db(t.db, t.root_hash, key_size=size))
        if bad is None and out != Exc(1):
            bad = f"SparseMerkleTree.from_db(..., key_size={size}) not refused with ValidationError"
    return ops, outs, bad


def csapi(op):
    def a(x):
        return "PBad" if isinstance(x, str) and x == "BAD" else f"(PB {cb(x)})"
    k = op[0]
    if k in ("SAGet", "SAExists", "SABranch", "SADelete", "SAFromDb", "SAProofUpdate"):
        return f"{k} {a(op[1])}"
    if k == "SASet":
        return f"SASet {a(op[1])} {a(op[2])}"
    if k in ("SACalcRoot", "SAProofNew"):
        return f"{k} {a(op[1])} {a(op[2])} {cnat(op[3])}"
    return "SAState"


def fog_nibbles_checks():
    from trie.fog import HexaryTrieFog
    from trie.typing import Nibbles
    f = HexaryTrieFog()
    before = list(f._unexplored_prefixes)
    for nname, val, tag in BAD_NIBS:
        for label, call in (("explore.prefix", lambda: f.explore(val, ())), ("explore.segments", lambda: f.explore((), (val,))),
                            ("mark_all_complete", lambda: f.mark_all_complete([val])), ("nearest_unknown", lambda: f.nearest_unknown(val)),
                            ("nearest_right", lambda: f.nearest_right(val)), ("Nibbles", lambda: Nibbles(val))):
            out = guard(call)
            if out is None or out.tag != tag:
                return f"fog/Nibbles {label}<{nname}>: expected tag {tag}, got {out!r}"
    if list(f._unexplored_prefixes) != before:
        return "a refused fog call modified the fog"
    return None


def check(tier, seed):
    R = C.Reporter("C18", tier, seed)
    R.gate = C.proof_gate("C18")
    rng = random.Random(seed)
    drift = public_api_drift()
    for d in drift:
        R.corr_mismatches.append(("public API differs from the entry points the model covers: " + d, {}, {}))
    bad = fog_nibbles_checks()
    if bad:
        R.spec_violations.append((bad, {}))
    hterms, bterms, sterms = [], [], []
    nh = 3 if tier == "quick" else 12
    for i in range(nh):
        prune = i % 2 == 1
        prior, _ = HX.gen_writes(rng, rng.randint(0, 6), fan=False)      # small stores: the state is digested after every call
        ops, outs, bad = run_hexary(prune, prior, rng)
        R.evaluations += len(ops) // 2
        for j in range(0, len(ops), 2):
            R.nontrivial.add(C.case_key(["hexary", i, j, ops[j]]))
        if bad:
            R.spec_violations.append((bad, {"component": "HexaryTrie", "prune": prune, "prior": prior}))
        hterms.append(f"(({cbool(prune)}, {HX.cops(prior)}, {clist([chapi(o) for o in ops])}), {cobs(outs)})")
        _, _, bad = run_hexary(prune, prior, rng, damaged=True)
        R.count("hexary_damaged_db")
        if bad:
            R.spec_violations.append((bad, {"component": "HexaryTrie", "prune": prune, "prior": prior, "damaged": True}))
        if i == 0:
            R.samples.append(C.to_json({"component": "HexaryTrie", "prior": prior, "calls": ops[:6]}))
        bprior = [("set", BX.gen_key(rng), BX.gen_value(rng)) for _ in range(rng.randint(0, 4))]
        ops, outs, bad = run_binary(bprior)
        R.evaluations += len(ops) // 2
        for j in range(0, len(ops), 2):
            R.nontrivial.add(C.case_key(["binary", i, j, ops[j]]))
        if bad:
            R.spec_violations.append((bad, {"component": "BinaryTrie", "prior": bprior}))
        _, _, bad = run_binary(bprior, damaged=True)
        R.count("binary_damaged_db")
        if bad:
            R.spec_violations.append((bad, {"component": "BinaryTrie", "prior": bprior, "damaged": True}))
        bterms.append(f"(({clist([BX.cop(o) for o in bprior])}, {clist([cbapi(o) for o in ops])}), {cobs(outs)})")
        ks = [1, 2, 1][i % 3]
        sprior = [("set", bytes(rng.randrange(256) for _ in range(ks)), b"v" * rng.randint(1, 3)) for _ in range(rng.randint(0, 3))]
        ops, outs, bad = run_smt(ks, sprior)
        R.evaluations += len(ops) // 2
        for j in range(0, len(ops), 2):
            R.nontrivial.add(C.case_key(["smt", i, j, ops[j]]))
        if bad:
            R.spec_violations.append((bad, {"component": "SparseMerkleTree", "key_size": ks, "prior": sprior}))
        _, _, bad = run_smt(ks, sprior, damaged=True)
        R.count("smt_damaged_db")
        if bad:
            R.spec_violations.append((bad, {"component": "SparseMerkleTree", "key_size": ks, "prior": sprior, "damaged": True}))
        sterms.append(f"(({cnat(ks)}, {clist([c14.cop(o) for o in sprior])}, {clist([csapi(o) for o in ops])}), {cobs(outs)})")
    m1, e1, n1 = C.eval_cases("C18", "hexary", IMPORTS, "c18_hexary_run", "bool * list hop * list hapi", hterms, shard=1)
    m2, e2, n2 = C.eval_cases("C18", "binary", IMPORTS, "c18_binary_run", "list bop * list bapi", bterms, shard=1)
    m3, e3, n3 = C.eval_cases("C18", "smt", IMPORTS, "c18_smt_run", "nat * list mop * list sapi", sterms, shard=1)
    R.shards, R.coq_errors = n1 + n2 + n3, e1 + e2 + e3
    R.shards_ok = R.shards - len(R.coq_errors) - len(m1) - len(m2) - len(m3)
    for name, mm, terms, fn, ty in (("hexary", m1, hterms, "c18_hexary_run", "bool * list hop * list hapi"),
                                    ("binary", m2, bterms, "c18_binary_run", "list bop * list bapi"),
                                    ("smt", m3, sterms, "c18_smt_run", "nat * list mop * list sapi")):
        for m in mm[:2]:
            R.corr_mismatches.append((f"impl≠model at the {name} validation layer", {"component": name, "index": m},
                                      {"diff_positions": C.eval_diff("C18", name, IMPORTS, fn, ty, terms[m])}))
    return R.finish(RULE, extra_cov={"exhaustive": True, "api_drift": drift})


def replay(payload):
    case = payload["case"]
    bad = None
    if case.get("component") == "HexaryTrie":
        _, _, bad = run_hexary(case["prune"], [HX.tuplify(o) for o in case["prior"]], random.Random(1), damaged=case.get("damaged", False))
    elif case.get("component") == "BinaryTrie":
        _, _, bad = run_binary([tuple(o) for o in case["prior"]], damaged=case.get("damaged", False))
    elif case.get("component") == "SparseMerkleTree":
        _, _, bad = run_smt(case["key_size"], [tuple(o) for o in case["prior"]], damaged=case.get("damaged", False))
    else:
        bad = fog_nibbles_checks()
    print("replay:", "VIOLATES: " + bad if bad else "holds")
    return 1 if bad else 0
