"""C17 — ScratchDB buffers a batch and commits it atomically or not at all."""
import random

from .. import common as C
from ..common import Exc, cb, clist, cbool, cobs, copt

IMPORTS = "From Coq Require Import List NArith ZArith.\nFrom PyTrie.Base Require Import Bytes Result AMap.\nFrom PyTrie.Db Require Import ScratchDb."
CASE_T = "amap bytes * list sop * option bool"
RULE = ("random op sequences (get/set/del/contains/copy) over a 6-key space with random initial wrapped contents; the batch is opened "
        "in a plain context or while the caller is handling an exception; "
        "exit by commit (do_deletes both ways) or by an exception injected at every position; non-trivial = the batch "
        "contains a delete of a pre-existing key, a set, and a read of a key whose latest action is a delete or set")

KEYS = [b"", b"a", b"ab", b"\x00", b"k" * 32, b"\xff\xfe"]
VALS = [b"v1", b"", b"v2" * 20, b"\x80"]


def gen_case(rng):
    init = {k: rng.choice(VALS) for k in KEYS if rng.random() < 0.5}
    n = rng.randint(0, 10)
    ops = []
    for _ in range(n):
        r = rng.random()
        k = rng.choice(KEYS)
        if r < 0.3:
            ops.append(("get", k))
        elif r < 0.6:
            ops.append(("set", k, rng.choice(VALS)))
        elif r < 0.8:
            ops.append(("del", k))
        elif r < 0.93:
            ops.append(("contains", k))
        else:
            ops.append(("copy",))
    r = rng.random()
    if r < 0.35:
        ex = ("commit", False)
    elif r < 0.7:
        ex = ("commit", True)
    else:
        ex = (rng.choice(["abort", "abort", "abort_base", "abort_genexit"]),)
        ops = ops[: rng.randint(0, len(ops))]
    layered = rng.random() < 0.25
    if layered:
        # ScratchDB.copy() merges the wrapped mapping, which needs a real mapping below (keys()); not part of what a nested
        # batch uses
        ops = [("contains", o[1] if len(o) > 1 else b"a") if o[0] == "copy" else o for o in ops]
    return {"init": init, "ops": ops, "exit": ex, "ctx": rng.choice(["plain", "plain", "handler"]), "layered": layered}


def run_impl(case):
    return C.in_ambient(case.get("ctx", "plain"), lambda: run_impl_(case))


def run_impl_(case):
    from trie.utils.db import ScratchDB, DELETED
    base = C.FailingDict(case["init"])
    # layered: the wrapped database is itself a ScratchDB (what a squash_changes block opened on a batch trie wraps); its
    # contents are observed as its commit view (its own buffer applied to the dict below it), which makes the expected
    # observations the same as for a plain dict
    layered = bool(case.get("layered"))
    wrapped = ScratchDB(base) if layered else base

    def view():
        d = dict(base)
        if layered:
            for k, v in wrapped.cache.items():
                if v is DELETED:
                    d.pop(k, None)
                else:
                    d[k] = v
        return sorted([k, v] for k, v in d.items())

    s = ScratchDB(wrapped)
    outs = []
    before_exit = None
    writes_open = None
    exit_exc = None

    def block():
        nonlocal before_exit, writes_open
        with s.batch_commit(do_deletes=(case["exit"][0] == "commit" and case["exit"][1])):
            for op in case["ops"]:
                try:
                    if op[0] == "get":
                        outs.append(s[op[1]])
                    elif op[0] == "set":
                        s[op[1]] = op[2]
                        outs.append(None)
                    elif op[0] == "del":
                        del s[op[1]]
                        outs.append(None)
                    elif op[0] == "contains":
                        outs.append(op[1] in s)
                    elif op[0] == "wset":
                        wrapped[op[1]] = op[2]           # ANOTHER writer stores into the wrapped database while the batch is open
                        outs.append(None)
                    else:
                        outs.append(sorted([k, v] for k, v in s.copy().items()))
                except KeyError as e:
                    outs.append(C.exc_obs(e))
            before_exit = view()
            writes_open = base.writes + (len(wrapped.cache) if layered else 0)
            if case["exit"][0] == "abort":
                raise C.Abort()
            if case["exit"][0] == "abort_base":
                raise C.AbortBase()          # left by an exception that is not an `Exception` (cf. KeyboardInterrupt)
            if case["exit"][0] == "abort_genexit":
                yield "suspended"            # the generator holding the block is closed: GeneratorExit inside the block
        yield "done"

    try:
        g = block()
        if next(g) == "suspended":
            g.close()
    except (C.Abort, C.AbortBase):
        pass
    except Exception as e:          # leaving the block raised something of the library's own
        exit_exc = f"{type(e).__name__}: {e}"
    after = view()
    if layered and dict(base) != dict(case["init"]):
        after = [[b"<the dict below the wrapped ScratchDB was written>", b""]] + after
    return {"outs": outs, "before_exit": before_exit, "after": after, "cache_len": len(s.cache),
            "writes_open": writes_open, "exit_exc": exit_exc}


def obs_of(I):
    return [I["outs"], I["before_exit"], I["after"], I["cache_len"]]


def spec_check(case, I):
    """The property, stated directly: an independent oracle on the implementation's run."""
    init = dict(case["init"])
    last = {}
    DEL = object()
    exp = []
    for op in case["ops"]:
        if op[0] == "get":
            a = last.get(op[1])
            if a is not None and a is not DEL:
                exp.append(a)
            elif op[1] in init:
                exp.append(init[op[1]])   # also when the latest action is a delete: read-through
            else:
                exp.append(Exc(7, [op[1]]))
        elif op[0] == "set":
            last[op[1]] = op[2]
            exp.append(None)
        elif op[0] == "del":
            last[op[1]] = DEL
            exp.append(None)
        elif op[0] == "contains":
            a = last.get(op[1])
            exp.append((a is not None and a is not DEL) or op[1] in init)
        elif op[0] == "wset":
            init[op[1]] = op[2]          # the wrapped database as others left it: what read-through reads and the commit start from
            exp.append(None)
        else:
            m = dict(init)
            for k, a in last.items():
                if a is DEL:
                    m.pop(k, None)
                else:
                    m[k] = a
            exp.append(sorted([k, v] for k, v in m.items()))
    if I.get("exit_exc"):
        return "leaving the batch_commit block raised " + I["exit_exc"]
    if I["outs"] != exp:
        return "reads inside the batch differ from latest-buffered-write / read-through"
    if I["writes_open"] != sum(1 for o in case["ops"] if o[0] == "wset") or I["before_exit"] != sorted([k, v] for k, v in init.items()):
        return "wrapped database written while the batch was open"
    fin = dict(init)
    if case["exit"][0] == "commit":
        for k, a in last.items():
            if a is DEL:
                if case["exit"][1]:
                    fin.pop(k, None)
            else:
                fin[k] = a
    if I["after"] != sorted([k, v] for k, v in fin.items()):
        return "wrapped database after exit is not the commit/abort specification"
    if I["cache_len"] != 0:
        return "buffer not empty after exit"
    return None


def coq_case(case, I):
    init = clist([f"({cb(k)}, {cb(v)})" for k, v in case["init"].items()])
    ops = []
    for op in case["ops"]:
        if op[0] == "get":
            ops.append(f"SGet {cb(op[1])}")
        elif op[0] == "set":
            ops.append(f"SSet {cb(op[1])} {cb(op[2])}")
        elif op[0] == "del":
            ops.append(f"SDel {cb(op[1])}")
        elif op[0] == "contains":
            ops.append(f"SContains {cb(op[1])}")
        else:
            ops.append("SCopy")
    ex = "None" if case["exit"][0].startswith("abort") else f"(Some {cbool(case['exit'][1])})"
    return f"(({init}, {clist(ops)}, {ex}), {cobs(obs_of(I))})"


def nontrivial(case):
    ks = set(case["init"])
    has_del_pre = any(o[0] == "del" and o[1] in ks for o in case["ops"])
    has_set = any(o[0] == "set" for o in case["ops"])
    touched = set()
    read_after = False
    for o in case["ops"]:
        if o[0] in ("set", "del"):
            touched.add(o[1])
        elif o[0] in ("get", "contains") and o[1] in touched:
            read_after = True
    return has_del_pre and has_set and read_after


def corpus():
    return [
        {"init": {b"a": b"v1"}, "ops": [("del", b"a"), ("get", b"a"), ("contains", b"a")], "exit": ("commit", False)},
        {"init": {b"a": b"v1"}, "ops": [("del", b"a"), ("get", b"a"), ("set", b"a", b"v2"), ("del", b"a")], "exit": ("commit", True)},
        {"init": {b"a": b"v1", b"": b""}, "ops": [("set", b"ab", b"v2"), ("del", b""), ("copy",)], "exit": ("abort",)},
        {"init": {}, "ops": [("get", b"a"), ("del", b"a"), ("get", b"a")], "exit": ("commit", True)},
        # the same batches opened while the caller is handling an exception (e.g. inside a retry handler)
        {"init": {b"a": b"v1", b"k": b"v2"}, "ops": [("set", b"a", b"v2"), ("del", b"k"), ("set", b"ab", b"")], "exit": ("commit", True), "ctx": "handler"},
        {"init": {b"a": b"v1"}, "ops": [("set", b"a", b"v2"), ("del", b"a")], "exit": ("commit", False), "ctx": "handler"},
        {"init": {b"a": b"v1"}, "ops": [("set", b"ab", b"v2"), ("del", b"a")], "exit": ("abort",), "ctx": "handler"},
        # the wrapped database is itself a ScratchDB (D4: deletes must be pushed into it without pop())
        {"init": {b"a": b"v1", b"k": b"v2"}, "ops": [("set", b"a", b"v2"), ("del", b"k"), ("set", b"ab", b"x"), ("del", b"zz")], "exit": ("commit", True), "layered": True},
        {"init": {b"a": b"v1", b"k": b"v2"}, "ops": [("set", b"a", b"v2"), ("del", b"k")], "exit": ("commit", False), "layered": True},
        {"init": {b"a": b"v1", b"k": b"v2"}, "ops": [("set", b"a", b"v2"), ("del", b"k")], "exit": ("abort",), "layered": True},
        # left by an exception that is not an `Exception` subclass / by GeneratorExit
        {"init": {b"a": b"v1", b"k": b"v2"}, "ops": [("set", b"a", b"v2"), ("del", b"k"), ("set", b"ab", b"x")], "exit": ("abort_base",)},
        {"init": {b"a": b"v1", b"k": b"v2"}, "ops": [("set", b"a", b"v2"), ("del", b"k"), ("set", b"ab", b"x")], "exit": ("abort_genexit",)},
    ]


def check(tier, seed):
    R = C.Reporter("C17", tier, seed)
    R.gate = C.proof_gate("C17")
    rng = random.Random(seed)
    n = 600 if tier == "quick" else 8000
    cases = corpus() + [gen_case(rng) for _ in range(n)]
    terms = []
    for case in cases:
        I = run_impl(case)
        R.evaluations += 1
        R.count("exit_" + case["exit"][0] + ("_dd" if case["exit"][0] == "commit" and case["exit"][1] else ""))
        R.count("ctx_" + case.get("ctx", "plain"))
        R.count("wrapped_is_scratchdb_" + str(int(bool(case.get("layered")))))
        for o in case["ops"]:
            R.count("op_" + o[0])
        if nontrivial(case):
            R.nontrivial.add(C.case_key(case))
        bad = spec_check(case, I)
        if bad:
            small_ops = C.shrink_list(case["ops"], lambda ops: spec_check(dict(case, ops=ops), run_impl(dict(case, ops=ops))) is not None)
            small = dict(case, ops=small_ops)
            R.spec_violations.append((bad, {"case": small, "impl": run_impl(small)}))
        terms.append(coq_case(case, I))
        if len(R.samples) < 3 and nontrivial(case):
            R.samples.append(C.to_json({"case": case, "impl": obs_of(I)}))
    # the wrapped database changes under the open batch (another writer): what a buffered action means is decided at COMMIT,
    # from the latest action, not from what the wrapped database held when the action was buffered (Python-side oracle only)
    fixed_ext = [{"init": {b"o": b"1"}, "ops": [("set", b"k", b"b"), ("del", b"k"), ("wset", b"k", b"W"), ("get", b"k")], "exit": ("commit", True), "ctx": "plain"},
                 {"init": {}, "ops": [("del", b"k"), ("wset", b"k", b"W"), ("contains", b"k")], "exit": ("commit", True), "ctx": "plain"},
                 {"init": {b"k": b"0"}, "ops": [("wset", b"k", b"W"), ("get", b"k"), ("set", b"k", b"n")], "exit": ("commit", False), "ctx": "plain"}]
    for ei in range(len(fixed_ext) + (150 if tier == "quick" else 2000)):
        if ei < len(fixed_ext):
            ec = fixed_ext[ei]
        else:
            ec = dict(gen_case(rng), layered=False)
            ec["ops"] = [o for o in ec["ops"] if o[0] != "copy"]
            for _ in range(rng.randint(1, 2)):
                ec["ops"].insert(rng.randint(0, len(ec["ops"])), ("wset", rng.choice(KEYS), rng.choice(VALS)))
        bad = spec_check(ec, run_impl(ec))
        R.evaluations += 1
        R.count("wrapped_db_written_by_another_writer")
        if bad:
            R.spec_violations.append((bad, {"case": ec, "impl": run_impl(ec)}))
    mism, errs, nsh = C.eval_cases("C17", "cases", IMPORTS, "c17_run", CASE_T, terms, shard=500)
    R.shards, R.shards_ok = nsh, nsh - len(errs) - len({m // 500 for m in mism})
    R.coq_errors = errs
    for m in mism[:5]:
        R.corr_mismatches.append(("impl≠model at ScratchDB batch (per-op results / wrapped store / cache)", cases[m],
                                  {"impl": obs_of(run_impl(cases[m])),
                                   "model": C.eval_show("C17", "cases", IMPORTS, "c17_run", CASE_T, terms[m])}))

    def search():
        r2 = random.Random(seed + 1)
        for _ in range(20000):
            c = gen_case(r2)
            bad = spec_check(c, run_impl(c))
            if bad:
                return bad, {"case": c}
        return None

    return R.finish(RULE, search=search)


def replay(payload):
    case = payload["case"]["case"] if "case" in payload.get("case", {}) else payload["case"]
    case["ops"] = [tuple(o) for o in case["ops"]]
    case["exit"] = tuple(case["exit"])
    case["init"] = {bytes.fromhex(k) if isinstance(k, str) else k: v for k, v in case["init"].items()}
    I = run_impl(case)
    bad = spec_check(case, I)
    print("replay:", "VIOLATES: " + bad if bad else "holds", C.to_json(obs_of(I)))
    return 1 if bad else 0
