"""C13 — binary-trie branches and witnesses are sufficient, exact and unforgeable."""
import random

from .. import common as C
from .. import binrun as BX
from ..common import Exc

RULE = ("random binary tries over prefix-sharing keys of length 1..4 bytes; for stored keys, proper prefixes, extensions and absent "
        "keys: check_if_branch_exist, get_branch, if_branch_valid of the true answer and of wrong answers, every single-node "
        "truncation / one-byte alteration of the branch, branches of other keys, get_trie_nodes, get_witness_for_key_prefix with the "
        "witness rebuilt into a fresh store and every key below the prefix read through it. non-trivial = trie with >= 3 keys, "
        "a refused get_branch, a forged branch rejected and a witness for a proper prefix")


PARTIAL_BAD = []      # violations found while priming with partial databases (reported by check)


def keccak(x):
    from eth_hash.auto import keccak as k
    return k(x)


def build_case(rng, tier):
    m = {}
    writes = []
    fixed = rng.choice([None, None, 2, 3])
    from trie.binary import BinaryTrie
    shadow = BinaryTrie({})       # only to obtain hashes of nodes that exist in the store at that point of the history
    for _ in range(rng.randint(0 if rng.random() < 0.1 else 1, 7 if tier == "quick" else 14)):
        k = BX.gen_key(rng, fixed)
        v = BX.gen_value(rng)
        if shadow.db and rng.random() < 0.2:
            # a VALUE that is the hash of a node present in the same store (the current root, or any stored node):
            # a value is data, never a reference
            v = bytes(shadow.root_hash) if rng.random() < 0.5 else bytes(rng.choice(sorted(shadow.db)))
        if not BX.prefix_related(k, m):
            m[k] = v
        writes.append(("set", k, v))
        try:
            shadow.set(k, v)
        except Exception:
            pass
    return writes, m


def alter(node, rng):
    if len(node) <= 1:
        return node + b"\x01"
    if rng.random() < 0.15:
        return bytes([node[0] ^ rng.choice([1, 2, 3, 0x80])]) + node[1:]     # another / an unknown node type byte
    i = rng.randrange(1, len(node))
    return node[:i] + bytes([node[i] ^ 1]) + node[i + 1:]


def gen_ops(rng, writes, m, tier):
    """phase 1 on the implementation to obtain branches; returns ops + meta for the oracle"""
    from trie.binary import BinaryTrie
    from trie import branches as BR
    t = BinaryTrie({})
    for w in writes:
        try:
            t.set(w[1], w[2])
        except Exception:
            pass
    root = bytes(t.root_hash)
    keys = BX.related(m.keys()) + [BX.gen_key(rng)]
    if len(keys) > (6 if tier == "quick" else 16):
        keys = rng.sample(keys, 6 if tier == "quick" else 16)
    # prefixes whose bits occur INSIDE a stored key's bit path without being a prefix of it (the key's bits shifted by 1..7)
    for k in rng.sample(sorted(m), min(2, len(m))):
        bits = "".join(format(b, "08b") for b in k)
        for sft in rng.sample(range(1, 8), 2):
            chunk = bits[sft:sft + 8 * rng.choice([1, 1, 2])]
            if len(chunk) >= 8:
                q = int(chunk[: len(chunk) // 8 * 8], 2).to_bytes(len(chunk) // 8, "big")
                if q not in keys:
                    keys.append(q)
    ops = list(writes)
    meta = [None] * len(ops)
    other = None
    for k in keys:
        ops.append(("branch_exist", k))
        meta.append(("exist", k))
        ops.append(("get_branch", k))
        meta.append(("branch", k))
        try:
            br = [bytes(x) for x in BR.get_branch(t.db, root, k)]
        except Exception:
            br = None
        if br:
            real = m.get(k)
            ops.append(("branch_valid", br, root, k, real))
            meta.append(("valid_true", k, real))
            wrong = b"forged" if real != b"forged" else b"forged2"
            ops.append(("branch_valid", br, root, k, wrong))
            meta.append(("valid_claim", k, wrong))
            if real is not None:
                ops.append(("branch_valid", br, root, k, None))
                meta.append(("valid_claim", k, None))
            for i in range(len(br)):
                ops.append(("branch_valid", br[:i] + br[i + 1:], root, k, rng.choice([real, wrong])))
                meta.append(("valid_claim", k, ops[-1][4]))
                ops.append(("branch_valid", br[:i] + [alter(br[i], rng)] + br[i + 1:], root, k, rng.choice([real, wrong, None])))
                meta.append(("valid_claim", k, ops[-1][4]))
            if other is not None and other[0] != k:
                ops.append(("branch_valid", other[1], root, k, rng.choice([real, m.get(other[0]), wrong])))
                meta.append(("valid_claim", k, ops[-1][4]))
            other = (k, br)
            # the same functions on a PARTIAL database first (just this branch's nodes: the root is there, most descendants are
            # not): whatever they return or raise there, the later calls on the complete database must not be affected by it
            partial = {keccak(n): n for n in br}
            try:
                got_partial = [bytes(x) for x in BR.get_trie_nodes(partial, root)]
                if sorted(set(got_partial)) != sorted(set(reachable_nodes(partial, root))):
                    PARTIAL_BAD.append(f"get_trie_nodes on a partial database (the nodes of one branch, {len(partial)} entries) returned "
                                       f"{len(set(got_partial))} of the {len(set(reachable_nodes(partial, root)))} nodes reachable in it")
            except Exception as e:
                PARTIAL_BAD.append(f"get_trie_nodes on a partial database raised {type(e).__name__}")
            for f in (lambda: list(BR.get_trie_nodes(partial, root)), lambda: list(BR.get_witness_for_key_prefix(partial, root, k[:1])),
                      lambda: BR.check_if_branch_exist(partial, root, k[:1]), lambda: list(BR.get_branch(partial, root, k + b"\x00"))):
                try:
                    f()
                except Exception:
                    pass
        ops.append(("witness", k))
        meta.append(("witness", k))
    ops.append(("trie_nodes",))
    meta.append(("nodes",))
    ops.append(("branch_exist", b""))
    meta.append(("exist", b""))
    ops.append(("witness", b""))
    meta.append(("witness", b""))
    return ops, meta, root


def reachable_nodes(db, root):
    from trie.utils.nodes import parse_node
    from trie.constants import BLANK_HASH
    out = []

    def walk(h):
        if h == BLANK_HASH or h not in db:
            return
        n = db[h]
        out.append(bytes(n))
        ty, a, b = parse_node(n)
        if ty == 0:
            walk(b)
        elif ty == 1:
            walk(a)
            walk(b)
    walk(root)
    return out


def oracle(ops, meta, outs, m, t, root):
    from trie.binary import BinaryTrie
    stats = {"refused": 0, "forged_rejected": 0, "prefix_witness": 0}
    nodeset = set(reachable_nodes(t.db, root))
    for op, mt, out in zip(ops, meta, outs):
        if mt is None:
            continue
        kind = mt[0]
        if kind == "exist":
            exp = any(k.startswith(mt[1]) for k in m)
            if out != exp:
                return f"check_if_branch_exist({mt[1].hex()}) = {out!r}, expected {exp}", stats
        elif kind == "branch":
            k = mt[1]
            if out == Exc(6):
                stats["refused"] += 1
                if k in m or not BX.prefix_related(k, m):
                    return f"get_branch refused key {k.hex()} which is stored or unrelated to stored keys", stats
            elif isinstance(out, Exc):
                return f"get_branch raised {out!r}", stats
            else:
                if any(n not in nodeset for n in out):
                    return "get_branch returned a node that is not in the trie", stats
        elif kind == "valid_true":
            if out is not True:
                return f"if_branch_valid does not confirm the trie's own answer for {mt[1].hex()}: {out!r}", stats
        elif kind == "valid_claim":
            k, claim = mt[1], mt[2]
            if out is True:
                if claim != m.get(k):
                    return f"a branch validated the answer {claim!r} for key {k.hex()}; the trie holds {m.get(k)!r}", stats
            else:
                stats["forged_rejected"] += 1
        elif kind == "nodes":
            if isinstance(out, Exc) or sorted(out) != sorted(nodeset) or len(out) != len(set(out)) and len(nodeset) == len(out):
                if isinstance(out, Exc) or set(out) != nodeset:
                    return "get_trie_nodes does not return exactly the nodes reachable from the root", stats
        elif kind == "witness":
            p = mt[1]
            if out == Exc(6):
                # refused only when p runs past a leaf: a proper prefix of p is a stored key
                if not any(p.startswith(k) and p != k for k in m):
                    return f"witness for {p.hex()} refused although it does not run past a leaf", stats
                continue
            if isinstance(out, Exc):
                return f"get_witness_for_key_prefix raised {out!r}", stats
            if any(n not in nodeset for n in out):
                return "witness contains a node that is not in the trie", stats
            db2 = {keccak(n): n for n in out}
            below = [k for k in m if k.startswith(p)]
            if below and p not in m:
                stats["prefix_witness"] += 1
            # every key starting with p: the stored ones and absent ones (answer: None)
            probes = below + [k for k in (p, p + b"\x00", p + b"\xff", p + b"\x12\x34") if k and k not in m]
            for k in probes:
                try:
                    got = BinaryTrie(db2, root).get(k)
                except Exception as e:
                    return f"witness for {p.hex()} is insufficient: get({k.hex()}) raised {type(e).__name__}", stats
                if got != m.get(k):
                    return f"witness for {p.hex()} answers get({k.hex()}) wrongly", stats
    return None, stats


def check(tier, seed):
    R = C.Reporter("C13", tier, seed)
    R.gate = C.proof_gate("C13")
    rng = random.Random(seed)
    n = 60 if tier == "quick" else 800
    cases, outs_list = [], []
    for _ in range(n):
        writes, m = build_case(rng, tier)
        del PARTIAL_BAD[:]
        ops, meta, root = gen_ops(rng, writes, m, tier)
        if PARTIAL_BAD:
            R.spec_violations.append((PARTIAL_BAD[0], {"ops": [o for o in ops if o[0] in ("set", "delete", "delete_subtrie")], "partial_database": True}))
        outs, t = BX.run_history(ops)
        R.evaluations += sum(1 for x in meta if x)
        bad, stats = oracle(ops, meta, outs, m, t, root)
        if bad:
            R.spec_violations.append((bad, {"ops": ops}))
        for mt, o in zip(meta, outs):
            if mt:
                R.count(mt[0] + ("_exc" if isinstance(o, Exc) else ""))
        if len(m) >= 3 and stats["refused"] and stats["forged_rejected"] and stats["prefix_witness"]:
            R.nontrivial.add(C.case_key(writes))
            if len(R.samples) < 2:
                R.samples.append(C.to_json({"writes": writes}))
        cases.append(ops)
        outs_list.append(outs)
    terms = [BX.coq_case(ops, outs) for ops, outs in zip(cases, outs_list)]
    shard = 4 if tier == "quick" else 12
    mism, errs, nsh = C.eval_cases("C13", "cases", BX.IMPORTS, "binary_run", BX.CASE_T, terms, shard=shard)
    R.shards, R.coq_errors = nsh, errs
    R.shards_ok = nsh - len(errs) - len({m // shard for m in mism})
    for m_ in mism[:3]:
        R.corr_mismatches.append(("impl≠model at branches.py helpers", {"ops": cases[m_]},
                                  {"model": C.eval_show("C13", "cases", BX.IMPORTS, "binary_run", BX.CASE_T, terms[m_])[-2500:],
                                   "impl": outs_list[m_]}))

    def search():
        r2 = random.Random(seed + 43)
        for _ in range(600):
            writes, m = build_case(r2, "thorough")
            ops, meta, root = gen_ops(r2, writes, m, "thorough")
            outs, t = BX.run_history(ops)
            bad, _ = oracle(ops, meta, outs, m, t, root)
            if bad:
                return bad, {"ops": ops}
        return None

    return R.finish(RULE, search=search)


def replay(payload):
    ops = [tuple(o) for o in payload["case"]["ops"]]
    outs, t = BX.run_history(ops)
    m = {}
    for o, out in zip(ops, outs):
        if o[0] == "set" and out is None:
            m[o[1]] = o[2]
    bad = None
    for o, out in zip(ops, outs):
        if o[0] == "branch_valid" and out is True and o[2] == bytes(t.root_hash) and o[4] != m.get(o[3]):
            bad = "a branch validated an answer the trie does not give"
        if o[0] == "branch_exist" and out != any(k.startswith(o[1]) for k in m):
            bad = "check_if_branch_exist wrong"
    print("replay:", "VIOLATES: " + bad if bad else "holds")
    return 1 if bad else 0
