"""C05 — squash_changes is an all-or-nothing batch."""
import random

from .. import common as C
from .. import hexrun as HX
from ..common import Exc

RULE = ("prior history (direct ops), then a batch of 0..6 writes which either exits normally, or raises before operation i for every "
        "i (and after the last), or (non-pruning) has its commit hit a failing store write at a chosen index; prune on/off; then 3 "
        "more direct writes and a full read-back. Observed: root, store, reference counts before/after; regenerate_ref_count. "
        "non-trivial = prior trie with a branch and a hashed child, batch of >= 2 writes touching existing keys, and an abort point "
        "strictly inside the batch")


def gen_base(rng, tier):
    prune = rng.random() < 0.5
    prior, m = HX.gen_writes(rng, rng.randint(1, 7))
    nb = rng.randint(0, 6)
    inner, m2 = [], dict(m)
    for _ in range(nb):
        w = HX.gen_write(rng, m2.keys())
        inner.append(w)
        HX.apply_model(m2, w)
        if rng.random() < 0.3:
            inner.append(("get", rng.choice(sorted(m2)) if m2 else b"", "meth"))
    if rng.random() < 0.25:
        # the batch itself creates two byte-identical hashed leaves and removes one of them again (with or without a third key
        # keeping their branch): the removed / merged leaf served intermediate states only
        inner = HX.gen_shared_family(rng, third=0.5)
        if rng.random() < 0.5:
            prior = []
    # part of the block may itself be a squash_changes block opened on the batch trie (committed, or left by an exception)
    inner = HX.nest_some(rng, inner, 0.3)
    if rng.random() < 0.15:
        prior, inner = HX.gen_there_and_back(rng)
    after, _ = HX.gen_writes(rng, 3)
    return {"prune": prune, "prior": prior, "inner": inner, "after": after}


def variants(base, rng, tier):
    """the same scenario with normal exit, every abort point, and failing commit writes"""
    out = []
    n = len(base["inner"])
    exits = [("commit", None)] + [("abort", i) for i in range(n + 1)]
    if not base["prune"]:
        idxs = range(0, 10) if tier == "thorough" else rng.sample(range(0, 8), 3)
        exits += [("commit_fail", b) for b in idxs]
    if tier == "quick" and len(exits) > 6:
        exits = exits[:1] + rng.sample(exits[1:], 5)
    for ex in exits:
        out.append(dict(base, exit=ex))
    return out


def build_ops(case):
    ops = list(case["prior"]) + [("state",)]
    if case["prune"]:
        ops.append(("regen",))
    kind, arg = case["exit"]
    if kind == "commit":
        ops.append(("batch", case["inner"], None))
    elif kind == "abort":
        ops.append(("batch", case["inner"], arg))
    else:
        ops += [("budget", arg), ("batch", case["inner"], None), ("budget", None)]
    ops.append(("state",))
    if case["prune"]:
        ops.append(("regen",))
    ops += list(case["after"]) + [("state",)]
    if case["prune"]:
        ops.append(("regen",))
    return ops


def run_and_check(case):
    # a quarter of the cases run while the caller is handling an exception (a batch opened in a retry handler)
    ctx = "handler" if case.get("ambient", int(C.case_key(case)[:2], 16) < 64) else "plain"
    return C.in_ambient(ctx, lambda: run_and_check_(case))


def run_and_check_(case):
    from trie import HexaryTrie
    backing = C.FailingDict()
    t = HexaryTrie(backing, prune=case["prune"])
    ops = build_ops(case)
    outs = []
    bad = None
    m = {}
    snap = None
    for op in ops:
        if op[0] in ("batch",) or (op[0] == "budget" and op[1] is not None and snap is None):
            if snap is None:
                snap = (bytes(t.root_hash), dict(backing), None if t._ref_count is None else {k: c for k, c in t._ref_count.items() if c})
        out = HX.step(t, op, backing)
        outs.append(out)
        if op[0] in ("set", "del"):
            if out is not None and bad is None:
                bad = f"direct write raised {out!r}"
            HX.apply_model(m, op)
        elif op[0] == "batch":
            root0, db0, rc0 = snap
            db1 = dict(backing)
            rc1 = None if t._ref_count is None else {k: c for k, c in t._ref_count.items() if c}
            res = out[1]
            if res is None:     # normal exit
                for o in op[1]:
                    HX.apply_model(m, o)
                reach = HX.reachable(backing, t.root_hash)
                added = set(db1) - set(db0)
                removed = set(db0) - set(db1)
                if bad is None and not added <= reach:
                    bad = "a node that served only intermediate states was added to the database"
                if bad is None and removed and not case["prune"]:
                    bad = "a non-pruning trie lost database entries in a batch"
            else:
                if bad is None and res not in (Exc(20), Exc(19)):
                    bad = f"batch raised {res!r}"
                if bad is None and bytes(t.root_hash) != root0:
                    bad = "outer root changed although the batch did not complete"
                if res == Exc(20):
                    if bad is None and db1 != db0:
                        bad = "database changed by an aborted batch"
                    if bad is None and rc1 != rc0:
                        bad = "reference counts changed by an aborted batch"
                else:
                    if bad is None and any(db1.get(k) != v for k, v in db0.items()):
                        bad = "a failing commit removed or changed earlier entries"
            # whatever happened: everything needed for the current root is present and reads = dict
            if bad is None:
                for k in HX.related_keys(m.keys()):
                    try:
                        got = t.get(k)
                    except Exception as e:
                        bad = f"trie unusable after the batch: get raised {type(e).__name__}"
                        break
                    if got != m.get(k, b""):
                        bad = f"after the batch get({k.hex()}) = {got!r}, expected {m.get(k, b'')!r}"
                        break
    # final read-back after the three extra writes
    if bad is None:
        for k in HX.related_keys(m.keys()):
            try:
                got = t.get(k)
            except Exception as e:
                bad = f"trie unusable afterwards: get raised {type(e).__name__}"
                break
            if got != m.get(k, b""):
                bad = f"later get({k.hex()}) = {got!r}, expected {m.get(k, b'')!r}"
                break
    if bad is None and case["prune"]:
        regen = {k: c for k, c in t.regenerate_ref_count().items() if c}
        rc = {k: c for k, c in t._ref_count.items() if c}
        if rc != regen or set(backing) != set(regen):
            bad = "after the batch and three more writes the pruning trie is not exact (counts / database != live nodes)"
    return ops, outs, bad, (t, backing)


def corpus():
    d3 = {"prune": True, "prior": [("set", b"\x01\x01", b"a" * 40, "meth"), ("set", b"\x01\x02", b"b" * 40, "meth")],
          "inner": [("set", b"\x02\x02", b"c" * 40, "meth"), ("del", b"\x01\x01", "meth")], "after": [("del", b"\x01\x02", "meth"), ("set", b"\x03", b"x", "meth"), ("get", b"\x02\x02", "meth")],
          "exit": ("abort", 2)}
    d2 = {"prune": True, "prior": [("set", b"\x01" * 4, b"x" * 40, "meth")], "inner": [("set", b"\x02" * 4, b"y" * 40, "meth")],
          "after": [("set", b"\x03" * 4, b"z" * 40, "meth"), ("del", b"\x02" * 4, "meth"), ("get", b"\x01" * 4, "meth")], "exit": ("commit", None)}
    # D4: a squash_changes block opened on the batch trie; committing it pushes deletes into the enclosing ScratchDB
    n1 = [("set", b"\x02", b"c" * 40, "meth"),
          ("batch", [("set", b"\x03", b"d" * 40, "meth"), ("del", b"\x01\x01", "meth")], None),
          ("get", b"\x03", "meth"), ("get", b"\x01\x01", "meth")]
    n2 = [("set", b"\x02", b"c" * 40, "meth"),
          ("batch", [("set", b"\x03", b"d" * 40, "meth"), ("del", b"\x01\x01", "meth")], 2),
          ("get", b"\x03", "meth"), ("get", b"\x01\x01", "meth"), ("del", b"\x01\x02", "item")]
    d4 = [dict(d3, inner=n, prune=p, exit=e) for n in (n1, n2) for p in (False, True) for e in (("commit", None), ("abort", 3))]
    tab = {"prune": True, "prior": [("set", b"\x01\x01", b"a" * 40, "meth"), ("set", b"\x01\x02", b"b" * 40, "meth")],
           "inner": [("set", b"\x01\x01", b"z" * 40, "item"), ("batch", [("set", b"\x01\x01", b"a" * 40, "meth")], None),
                     ("get", b"\x01\x01", "meth")],
           "after": [("get", b"\x01\x01", "meth"), ("set", b"\x03", b"x", "meth"), ("get", b"\x01\x02", "meth")], "exit": ("commit", None)}
    # a block on an EMPTY pruning trie (its count table is an empty dict), abandoned after a write; then the same write for real
    e5 = {"prune": True, "prior": [], "inner": [("set", b"\x12\x34", b"v" * 40, "meth"), ("set", b"\x12\x35", b"w" * 40, "meth")],
          "after": [("set", b"\x12\x34", b"v" * 40, "meth"), ("del", b"\x12\x34", "item"), ("get", b"\x12\x35", "meth")], "exit": ("abort", 2)}
    # two byte-identical sibling leaves that are the only children of their branch; the block removes one of them
    V = b"V" * 40
    tw = {"prune": True, "prior": [("set", b"\x12\x01", V, "meth"), ("set", b"\x12\x11", V, "meth")],
          "inner": [("del", b"\x12\x01", "meth"), ("get", b"\x12\x11", "meth")],
          "after": [("get", b"\x12\x11", "meth"), ("set", b"\x12\x01", V, "item"), ("del", b"\x12\x11", "meth")], "exit": ("commit", None)}
    return ([d3, d2, dict(d3, exit=("commit", None)), dict(d2, prune=False, exit=("commit_fail", 1))] + d4 + [tab, dict(tab, prune=False)]
            + [e5, dict(e5, exit=("commit", None)), tw, dict(tw, prune=False), dict(tw, inner=[("batch", tw["inner"], None)])])


def check(tier, seed):
    R = C.Reporter("C05", tier, seed)
    R.gate = C.proof_gate("C05")
    rng = random.Random(seed)
    nb = 28 if tier == "quick" else 250
    cases = corpus()
    for _ in range(nb):
        cases.extend(variants(gen_base(rng, tier), rng, tier))
    runs, outs_list = [], []
    for case in cases:
        ops, outs, bad, (t, backing) = run_and_check(case)
        R.evaluations += 1
        R.count(f"exit_{case['exit'][0]}_prune_{int(case['prune'])}")
        if bad:
            R.spec_violations.append((bad, case))
        kinds = HX.classify_trie(backing, t.root_hash)
        if (kinds["branch"] and kinds["hashed_child"] > 1 and len([o for o in case["inner"] if o[0] in ("set", "del")]) >= 2
                and case["exit"][0] == "abort" and 0 < case["exit"][1] < len(case["inner"])):
            R.nontrivial.add(C.case_key(case))
            if len(R.samples) < 2:
                R.samples.append(C.to_json(case))
        runs.append((case["prune"], ops))
        outs_list.append(outs)
    shard = 10 if tier == "quick" else 30
    mism, errs, nsh, terms = HX.eval_hexary("C05", "cases", runs, outs_list, shard)
    R.shards, R.coq_errors = nsh, errs
    R.shards_ok = nsh - len(errs) - len({m // shard for m in mism})
    for m in mism[:3]:
        R.corr_mismatches.append(("impl≠model at squash_changes (root / db / refcounts around the batch)", cases[m],
                                  {"impl": outs_list[m],
                                   "model": C.eval_show("C05", "cases", HX.IMPORTS, "hexary_run", "bool * list hop", terms[m])[-2500:]}))

    def search():
        r2 = random.Random(seed + 29)
        for _ in range(300):
            for c in variants(gen_base(r2, "thorough"), r2, "thorough"):
                _, _, bad, _ = run_and_check(c)
                if bad:
                    return bad, c
        return None

    return R.finish(RULE, search=search,
                    partial_note="C05_abort, C05_commit_fail_root, C05_commit_pruning / C05_commit_nonpruning (the commit clause) and the nested-block "
                                 "theorems C05_abort_nested / C05_commit_nested are proved; that a batch trie on which an inner block was "
                                 "committed is again the exact trie of the effective writes, blocks with a failing write, and the calling "
                                 "context (ambient exception, BaseException / GeneratorExit exits) rest on this run's oracle and correspondence")


def replay(payload):
    case = payload["case"]
    for f in ("prior", "inner", "after"):
        case[f] = [HX.tuplify(o) for o in case[f]]
    case["exit"] = tuple(case["exit"])
    _, _, bad, _ = run_and_check(case)
    print("replay:", "VIOLATES: " + bad if bad else "holds")
    return 1 if bad else 0
