"""C12 — BinaryTrie is a map with a canonical, history-independent root."""
import random

from .. import common as C
from .. import binrun as BX
from ..common import Exc, cb, clist, cobs

RULE = ("histories of set / delete / set-to-empty / delete_subtrie over non-empty keys from a 5-symbol byte alphabet (shared bit "
        "prefixes, lengths 1..4, so prefix-related keys are common) or fixed-length keys; after each op: get/exists of stored keys, "
        "proper prefixes, extensions; exception class; root compared in Coq with bin_root keccak256 of the mapping alone (canonical "
        "kv/branch/leaf encoding built top-down); every earlier root re-read. non-trivial = >= 3 stored keys at some point, a refused "
        "call, a delete of a present key and a delete_subtrie that removed something")
SPEC_IMPORTS = BX.IMPORTS


def gen_history(rng, tier):
    fixed = rng.choice([None, None, 2, 4])
    if rng.random() < 0.06:
        fixed = rng.choice([33, 40])          # keys longer than 32 bytes: kv key paths of more than 256 bits
    n = rng.randint(4, 10) if tier == "quick" else rng.randint(6, 30)
    m = {}
    ops = []
    roots = []
    for _ in range(n):
        r = rng.random()
        if r < 0.55 or not m:
            k = BX.gen_key(rng, fixed)
            v = BX.gen_value(rng)
            ops.append(("set", k, v))
            if not BX.prefix_related(k, m):
                m[k] = v
        elif r < 0.65:
            k = rng.choice(sorted(m))
            ops.append(("set", k, b"") if rng.random() < 0.3 else ("delete", k))
            m.pop(k, None)
        elif r < 0.75:
            ops.append(("delete", BX.gen_key(rng, fixed)))
            m.pop(ops[-1][1], None)
        elif r < 0.9:
            k = rng.choice(sorted(m))
            r3 = rng.random()
            if r3 < 0.6:
                p = k[: rng.randint(1, len(k))]
            elif r3 < 0.75:
                p = k + b"\x00"
            else:
                # a prefix that leaves the stored key in its last byte (by one bit, or arbitrarily): usually matches nothing
                p = bytearray(k[: rng.randint(1, len(k))])
                p[-1] ^= rng.choice([1, 2, 0x10, 0x80, rng.randrange(1, 256)])
                p = bytes(p)
            ops.append(("delete_subtrie", p))
            # the dict is only advisory here; the oracle decides from the observed outcome
            m = {kk: vv for kk, vv in m.items() if not kk.startswith(p)} if not any(p.startswith(kk) and p != kk for kk in m) else m
        else:
            ops.append(("set", BX.gen_key(rng, fixed), b""))
            m.pop(ops[-1][1], None)
        # every stored key is read back after every operation (a node shared with another key may have been lost), plus a
        # sample of the related absent keys
        probe_keys = [k for k in BX.related(m.keys()) if k not in m]
        if len(probe_keys) > 6:
            probe_keys = rng.sample(probe_keys, 6)
        probe_keys = sorted(m)[:12] + probe_keys
        for k in probe_keys:
            ops.append((rng.choice(["get", "get", "exists"]), k))
        ops.append(("state",))
    return ops


def spine_history(rng, side=None, plen=None):
    """dense shape: under a prefix p the keys p+x for the nine bytes x whose bit paths form a spine of eight consecutive
    branch nodes ending directly in a leaf (all-ones side: 7f bf df ef f7 fb fd fe ff; all-zeros side: 80 40 20 10 08 04 02 01
    00). Sparse key sets always put a kv node on such a path, so lookups of p itself (never stored; its bits end exactly at the
    top branch) run down a pure branch chain only here."""
    side = side or rng.choice(["ones", "zeros"])
    xs = [0xFF ^ (1 << i) for i in range(8)] + [0xFF] if side == "ones" else [1 << i for i in range(8)] + [0x00]
    p = bytes(rng.choice(BX.ALPHA) if hasattr(BX, "ALPHA") else rng.randrange(256) for _ in range(plen or rng.randint(1, 2)))
    rng.shuffle(xs)
    ops = []
    for x in xs:
        ops.append(("set", p + bytes([x]), bytes([0x61 + (x % 7)]) * rng.choice([1, 3, 40])))
    probes = [p, p[:-1] or b"\x00", p + b"\xff", p + b"\x00", p + b"\xff\x00", p + b"\x7f", p + b"\x80"]
    for k in probes:
        ops.append(("get", k))
        ops.append(("exists", k))
    ops.append(("state",))
    ops.append(("set", p, b"shadow"))          # refused: p is a proper prefix of stored keys
    ops.append(("delete", p))
    ops.append(("get", p))
    ops.append(("state",))
    victim = p + bytes([xs[0]])
    ops += [("delete", victim), ("get", victim), ("get", p), ("exists", p), ("state",)]
    return ops


def twin_history(rng, fixed_case=None):
    """byte-identical nodes at two places: two keys with the same value whose bit paths end in the same tail (x and x ^ 0x80,
    or a shared last byte), plus neighbours whose deletion collapses a branch next to one of them. The database is keyed by
    content, so a node that is transient at one place can be a live node at the other."""
    if fixed_case:
        ks = [b"\x00", b"\x1a", b"\x9a", b"\xa0"]
        vals = [b"gone", b"same", b"same", b"other"]
    else:
        pre = bytes(rng.choice(BX.ALPHA) for _ in range(rng.choice([0, 0, 1])))
        tail = rng.randrange(1, 0x80)
        ks = [pre + bytes([tail]), pre + bytes([tail | 0x80]), pre + bytes([rng.randrange(0x20)]), pre + bytes([0x80 | rng.randrange(0x20, 0x7F)])]
        same = BX.gen_value(rng)
        vals = [same, same, BX.gen_value(rng), BX.gen_value(rng)]
    order = list(range(4))
    if not fixed_case:
        rng.shuffle(order)
    ops = []
    for i in order:
        ops.append(("set", ks[i], vals[i]))
    ops.append(("state",))
    dels = [ks[0], ks[3], ks[2], ks[1]] if fixed_case else rng.sample(ks, 4)
    live = dict(zip(ks, vals))
    for d in dels:
        ops.append(("delete", d))
        live.pop(d, None)
        for k in sorted(live):
            ops.append(("get", k))
        ops.append(("state",))
    return ops


def oracle(ops, outs):
    """prefix-free dict with the refusal rule; returns (violation|None, checkpoints)"""
    m = {}
    cps = []        # (mapping, root) after each state op
    history = []    # (root, mapping) of all earlier states
    for op, out in zip(ops, outs):
        k = op[0]
        if k == "set" and op[2] != b"":
            if BX.prefix_related(op[1], m):
                if out != Exc(5):
                    return f"set under a prefix-related key was not refused with NodeOverrideError: {out!r}", cps, history
            else:
                if out is not None:
                    return f"set raised {out!r}", cps, history
                m[op[1]] = op[2]
        elif k in ("delete", "set"):
            key = op[1]
            if key in m:
                if out is not None:
                    return f"delete of a stored key raised {out!r}", cps, history
                del m[key]
            else:
                if out is not None and out != Exc(5):
                    return f"delete of an absent key raised {out!r}", cps, history
        elif k == "delete_subtrie":
            if out is None:
                m = {kk: vv for kk, vv in m.items() if not kk.startswith(op[1])}
            elif out != Exc(5):
                return f"delete_subtrie raised {out!r}", cps, history
            # a refusal must change nothing: checked through the following reads and the root
        elif k == "get":
            exp = m.get(op[1])
            if out != exp:
                return f"get({op[1].hex()}) = {out!r}, map holds {exp!r}", cps, history
        elif k == "exists":
            if out != (op[1] in m):
                return f"exists({op[1].hex()}) = {out!r}", cps, history
        elif k == "state":
            cps.append((dict(m), out[0]))
            history.append((out[0], dict(m)))
    return None, cps, history


def refusal_unchanged(ops, outs):
    """a raising call leaves the root unchanged"""
    last_root = None
    pending_exc = False
    dirty = False      # a successful write happened since the last observed root
    for op, out in zip(ops, outs):
        if op[0] in ("set", "delete", "delete_subtrie"):
            if isinstance(out, Exc):
                pending_exc = True
            else:
                dirty = True
        elif op[0] == "state":
            if pending_exc and not dirty and last_root is not None and out[0] != last_root:
                return "a call that raised changed the root"
            last_root = out[0]
            pending_exc = False
            dirty = False
    return None


def old_roots_readable(t, history):
    from trie.binary import BinaryTrie
    for root, m in history:
        snap = BinaryTrie(getattr(t, "caller_db", t.db), root)
        try:
            for k, v in m.items():
                if snap.get(k) != v:
                    return "an earlier root no longer reads its contents"
            for k in BX.related(m.keys()):
                if k not in m and snap.get(k) is not None:
                    return "an earlier root reads a key it never held"
        except Exception as e:
            return f"an earlier root is no longer readable from the same database: {type(e).__name__}"
    return None


def root_node_tail(rng, ops):
    """ops observing / assigning the root_node property, appended after a history (bodies are those the implementation stored).
    Returns (tail ops, expectations); the map oracle does not look at the tail."""
    from eth_hash.auto import keccak
    outs, t = BX.run_history(ops)
    _, cps, history = oracle(ops, outs)
    cur = bytes(t.root_hash)
    tail = [("root_node",)]
    exp = [("root_node", cur)]
    olds = [(r, m) for r, m in history if r != cur and r in t.db]
    if olds and rng.random() < 0.7:
        r_old, m_old = rng.choice(olds)
        tail += [("set_root_node", bytes(t.db[r_old])), ("state",)]
        exp += [("ok",), ("root", r_old)]
        for k in sorted(m_old)[:4] + [kk for kk in BX.related(m_old.keys()) if kk not in m_old][:3]:
            tail.append(("get", k))
            exp.append(("get", m_old.get(k)))
        cur = r_old
    for bad in rng.sample([b"\x03abc", b"\x09", b"\xff" * 33, b"", b"\x03"], 2):
        tail.append(("set_root_node", bad))
        exp.append(("refused", 11 if bad == b"" else 1))
    tail += [("state",), ("root_node",)]
    exp += [("root", cur), ("root_node", cur)]
    if rng.random() < 0.5 and cur in t.db:
        # assigning the current root node again is idempotent
        tail += [("set_root_node", bytes(t.db[cur])), ("state",)]
        exp += [("ok",), ("root", cur)]
    return tail, exp


def tail_oracle(tail, exp, outs):
    from eth_hash.auto import keccak
    from trie.constants import BLANK_HASH
    for op, e, out in zip(tail, exp, outs):
        if e[0] == "root_node":
            if e[1] == BLANK_HASH:
                if out != Exc(7, [BLANK_HASH]) and out != Exc(7):
                    return f"root_node of an empty trie gave {out!r}"
            elif isinstance(out, Exc) or keccak(out) != e[1]:
                return "root_node is not the body whose hash is root_hash"
        elif e[0] == "ok" and out is not None:
            return f"root_node = <valid node> raised {out!r}"
        elif e[0] == "root" and out[0] != e[1]:
            return "root_hash after a root_node assignment / refusal is not the expected root"
        elif e[0] == "get" and out != e[1]:
            return f"after re-rooting at an earlier root node get({op[1].hex()}) = {out!r}, that state held {e[1]!r}"
        elif e[0] == "refused" and out != Exc(e[1]):
            return f"root_node = {op[1]!r} was not refused as expected: {out!r}"
    return None


def nontrivial(ops, outs, cps):
    return (any(len(m) >= 3 for m, _ in cps) and any(isinstance(o, Exc) for o in outs)
            and any(op[0] == "delete_subtrie" and out is None for op, out in zip(ops, outs)))


def corpus():
    return [[("set", b"\x12\x34", b"a"), ("set", b"\x12\x35", b"b"), ("set", b"\x12", b"c"), ("get", b"\x12"), ("set", b"\x12\x34\x56", b"d"),
             ("state",), ("delete", b"\x12"), ("state",), ("delete_subtrie", b"\x12"), ("get", b"\x12\x34"), ("state",),
             ("set", b"\x80", b"x" * 40), ("delete_subtrie", b"\x80\x00"), ("state",), ("delete", b"\x80"), ("state",)]]


def subclass_check(ops, outs):
    """the same history with keys and values that are instances of a bytes subclass gives the same results and roots"""
    alt = BX.run_history(C.subify(list(ops)))[0]
    if alt != outs:
        i = next((j for j, (a, b) in enumerate(zip(alt, outs)) if a != b), None)
        return f"history behaves differently when keys / values are instances of a bytes subclass (step {i}: {alt[i]!r} vs {outs[i]!r})"
    return None


def check(tier, seed):
    R = C.Reporter("C12", tier, seed)
    R.gate = C.proof_gate("C12")
    rng = random.Random(seed)
    n = 150 if tier == "quick" else 1200
    cases = corpus() + [spine_history(random.Random(7), "ones", 1), spine_history(random.Random(8), "zeros", 1)]
    cases += [spine_history(rng) for _ in range(2 if tier == "quick" else 30)]
    cases += [twin_history(rng, True)] + [twin_history(rng) for _ in range(4 if tier == "quick" else 60)]
    cases += [gen_history(rng, tier) for _ in range(n)]
    terms, spec_terms, where, term_ops = [], [], [], []
    for ci, ops in enumerate(cases):
        outs, t = BX.run_history(ops)
        R.evaluations += 1
        bad, cps, history = oracle(ops, outs)
        bad = bad or refusal_unchanged(ops, outs) or old_roots_readable(t, history) or ((tier == "quick" or ci % 4 == 0) and subclass_check(ops, outs)) or None
        if not bad and ci % 3 == 0:
            # the root_node property (getter / setter), after the history
            tail, exp = root_node_tail(rng, ops)
            full = ops + tail
            fouts, _ = BX.run_history(full)
            tb = tail_oracle(tail, exp, fouts[len(ops):])
            if tb:
                R.spec_violations.append((tb, {"ops": full}))
            R.count("root_node_tail")
            terms.append(BX.coq_case(full, fouts))
            term_ops.append(full)
        if bad:
            def still(o):
                oo, tt = BX.run_history(o)
                b, c_, h_ = oracle(o, oo)
                return (b or refusal_unchanged(o, oo) or old_roots_readable(tt, h_) or subclass_check(o, oo)) is not None
            small = C.shrink_list(ops, still)
            R.spec_violations.append((bad, {"ops": small}))
        for op, out in zip(ops, outs):
            if op[0] in ("set", "delete", "delete_subtrie"):
                R.count(op[0] + ("_refused" if isinstance(out, Exc) else ""))
        if nontrivial(ops, outs, cps):
            R.nontrivial.add(C.case_key(ops))
            if len(R.samples) < 2:
                R.samples.append(C.to_json({"ops": [o for o in ops if o[0] in ("set", "delete", "delete_subtrie")]}))
        terms.append(BX.coq_case(ops, outs))
        term_ops.append(ops)
        pick = cps if tier == "thorough" else cps[-1:] + (rng.sample(cps[:-1], min(2, len(cps) - 1)) if len(cps) > 1 else [])
        for m, root in pick:
            spec_terms.append(f"({clist(['(' + cb(k) + ', ' + cb(v) + ')' for k, v in sorted(m.items())])}, {cobs(root)})")
            where.append(ci)
    shard = 10 if tier == "quick" else 40
    mism, errs, nsh = C.eval_cases("C12", "cases", BX.IMPORTS, "binary_run", BX.CASE_T, terms, shard=shard)
    ms, es, nsh2 = C.eval_cases("C12", "spec", BX.IMPORTS, "c12_spec_root", "list (bytes * bytes)", spec_terms, shard=shard * 3)
    R.shards, R.coq_errors = nsh + nsh2, errs + es
    R.shards_ok = R.shards - len(errs) - len(es) - len({m // shard for m in mism}) - len({m // (shard * 3) for m in ms})
    for m in ms[:3]:
        R.spec_violations.append(("root is not the hash of the canonical encoding (bin_root keccak256, evaluated in Coq) of the contents",
                                  {"ops": cases[where[m]]}))
    for m in mism[:3]:
        R.corr_mismatches.append(("impl≠model at BinaryTrie history", {"ops": term_ops[m]},
                                  {"impl": BX.run_history(term_ops[m])[0],
                                   "model": C.eval_show("C12", "cases", BX.IMPORTS, "binary_run", BX.CASE_T, terms[m])}))

    def search():
        r2 = random.Random(seed + 17)
        for _ in range(3000):
            ops = gen_history(r2, "thorough")
            outs, t = BX.run_history(ops)
            bad, cps, history = oracle(ops, outs)
            bad = bad or refusal_unchanged(ops, outs) or old_roots_readable(t, history)
            if bad:
                return bad, {"ops": ops}
        return None

    return R.finish(RULE, search=search,
                    partial_note="tree-level theorems and the database-level write refinement (C12_D_history) are proved; the root_node setter and the "
                                 "byte-level API are tied by correspondence")


def replay(payload):
    ops = [tuple(o) for o in payload["case"]["ops"]]
    outs, t = BX.run_history(ops)
    bad, cps, history = oracle(ops, outs)
    bad = bad or refusal_unchanged(ops, outs) or old_roots_readable(t, history) or subclass_check(ops, outs)
    if not bad and cps:
        terms = [f"({clist(['(' + cb(k) + ', ' + cb(v) + ')' for k, v in sorted(m.items())])}, {cobs(root)})" for m, root in cps]
        ms, es, _ = C.eval_cases("C12", "replay", BX.IMPORTS, "c12_spec_root", "list (bytes * bytes)", terms, shard=60)
        if ms or es:
            bad = "root differs from bin_root of the contents"
    print("replay:", "VIOLATES: " + bad if bad else "holds")
    return 1 if bad else 0
