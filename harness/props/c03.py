"""C03 — Hexary Merkle proofs are complete and sound."""
import random

from .. import common as C
from .. import hexrun as HX
from ..common import Exc

RULE = ("random tries (prefix-related short keys and 20/32-byte pools, values across the embedding threshold); for stored, absent, "
        "prefix, extension keys: get_proof, get_from_proof of the untouched proof, then fault sequences — drop each node, drop a pair, "
        "swap, duplicate, splice in a node of another trie, flip a byte inside a node, claim another trie's root. "
        "non-trivial = proof of >= 2 nodes with a hashed node on the path and at least one corruption yielding BadTrieProof")


def altered(node, rng):
    """flip one byte in some byte string of a (nested) node; keeps the node well-formed"""
    if isinstance(node, (bytes, bytearray)):
        if not node:
            return b"\x01"
        i = rng.randrange(len(node))
        return node[:i] + bytes([node[i] ^ 0x01]) + node[i + 1:]
    node = list(node)
    if len(node) == 2:
        idx = 1            # keep the hex-prefix key valid: alter the value / child reference
    else:
        cands = [i for i, x in enumerate(node) if x != b""] or [16]
        idx = rng.choice(cands)
    node[idx] = altered(node[idx], rng)
    return node


def gen_case(rng, tier):
    long_pool = HX.make_long_pool(rng) if rng.random() < 0.3 else None
    w1, m1 = HX.gen_writes(rng, rng.randint(2, 8 if tier == "quick" else 20), long_pool)
    w2, m2 = HX.gen_writes(rng, rng.randint(1, 5), long_pool)
    return {"w1": w1, "w2": w2, "m1": m1, "m2": m2, "seed": rng.randrange(1 << 30), "long": long_pool is not None}


def path_nodes(db, root, key):
    """Independent of the trie code: the nodes met when following `key` from `root` in the complete database (each as a
    raw nested list), embedded ones included. Uses only rlp and the hex-prefix convention."""
    import rlp
    nibs = [x for b in key for x in (b >> 4, b & 15)]
    out = []
    ref = root
    from trie.constants import BLANK_NODE_HASH
    if root == BLANK_NODE_HASH:
        return out
    while True:
        if isinstance(ref, (bytes, bytearray)):
            if len(ref) == 0:
                return out
            if len(ref) < 32 or bytes(ref) not in db:
                return out
            node = rlp.decode(db[bytes(ref)])
        else:
            node = ref
        out.append(HX.raw_obs(node))
        if len(node) == 17:
            if not nibs:
                return out
            ref, nibs = node[nibs[0]], nibs[1:]
        else:
            hp = node[0]
            flag = hp[0] >> 4
            pn = [x for b in hp[1:] for x in (b >> 4, b & 15)]
            if flag & 1:
                pn = [hp[0] & 15] + pn
            if flag & 2:          # leaf
                return out
            if nibs[: len(pn)] != pn:
                return out
            ref, nibs = node[1], nibs[len(pn):]


def build_ops(case, tier):
    """phase 1: run the writes and get the proofs on the implementation; phase 2: the full op list"""
    from trie import HexaryTrie
    rng = random.Random(case["seed"])
    t1, t2 = HexaryTrie({}), HexaryTrie({})
    for w in case["w1"]:
        HX.step(t1, w, t1.db)
    for w in case["w2"]:
        HX.step(t2, w, t2.db)
    keys = HX.related_keys(case["m1"].keys())
    if len(keys) > (6 if tier == "quick" else 14):
        keys = rng.sample(keys, 6 if tier == "quick" else 14)
    keys = [k for k in case.get("must_keys", []) if k not in keys] + keys
    other_nodes = []
    for k in list(case["m2"].keys())[:3]:
        other_nodes.extend(HX.raw_obs(n) for n in t2.get_proof(k))
    ops = list(case["w1"])
    meta = []       # per op: None or (key, root_used, kind)
    meta.extend([None] * len(ops))
    r1, r2 = bytes(t1.root_hash), bytes(t2.root_hash)
    for k in keys:
        raw_proof = list(t1.get_proof(k))
        proof = [HX.raw_obs(n) for n in raw_proof]
        import rlp as _rlp
        # a node of the path that is referenced by hash: the root always, the others when their encoding has 32 bytes or more
        hashed = [i == 0 or len(_rlp.encode(n)) >= 32 for i, n in enumerate(raw_proof)]
        ops.append(("proof", k))
        meta.append((k, r1, "proof", path_nodes(t1.db, r1, k)))
        # asked again: the caller has meanwhile overwritten the node lists the first call returned (HX.scribble); a proof is
        # recomputed from the database, not handed out from something the caller can reach
        ops.append(("proof", k))
        meta.append((k, r1, "proof", path_nodes(t1.db, r1, k)))
        variants = [("true", proof, r1)]
        # WITHHELD nodes, offered right after the honest proof was verified against the same root in the same process: whenever the
        # withheld node is referenced by hash the answer must be BadTrieProof, whatever was verified before ("withheld!")
        for i in range(len(proof)):
            variants.append(("withheld!" if hashed[i] else "drop", proof[:i] + proof[i + 1:], r1))
        if len(proof) >= 2:
            i, j = sorted(rng.sample(range(len(proof)), 2))
            variants.append(("withheld!" if hashed[i] or hashed[j] else "drop2", [n for x, n in enumerate(proof) if x not in (i, j)], r1))
            sw = list(proof)
            sw[i], sw[j] = sw[j], sw[i]
            variants.append(("swap", sw, r1))
        if proof:
            variants.append(("dup", proof + [proof[0]] + proof, r1))
            i = rng.randrange(len(proof))
            variants.append(("alter", proof[:i] + [altered(proof[i], rng)] + proof[i + 1:], r1))
            variants.append(("alter+orig", proof + [altered(proof[i], rng)], r1))
        if other_nodes:
            variants.append(("foreign", proof[:1] + other_nodes + proof[1:], r1))
            variants.append(("foreign_only", other_nodes, r1))
            variants.append(("other_root", proof + other_nodes, r2))
        variants.append(("withheld!" if proof else "empty", [], r1))
        for kind, pr, root in variants:
            ops.append(("fromproof", root, k, pr))
            meta.append((k, root, kind))
    # CRAFTED proofs: well-formed nodes with correct hash links that no library-built trie would contain (an extension that
    # points at a leaf, an extension that points at an extension). The trie with that root holds what its nodes say.
    import rlp
    from eth_hash.auto import keccak
    from trie.utils.nodes import compute_leaf_key, compute_extension_key
    for val in (b"V" * 40, b"v"):
        leaf = [bytes(compute_leaf_key((4, 5, 6))), val]
        leaf_ref = keccak(rlp.encode(leaf)) if len(rlp.encode(leaf)) >= 32 else leaf
        ext2 = [bytes(compute_extension_key((3,))), leaf_ref]
        ext2_ref = keccak(rlp.encode(ext2)) if len(rlp.encode(ext2)) >= 32 else ext2
        for name, top, nodes in (("ext->leaf", [bytes(compute_extension_key((1, 2, 3))), leaf_ref], [leaf]),
                                 ("ext->ext->leaf", [bytes(compute_extension_key((1, 2))), ext2_ref], [ext2, leaf])):
            root = keccak(rlp.encode(top))
            stored = [n for n in nodes if len(rlp.encode(n)) >= 32]
            key = bytes.fromhex("123456")
            case.setdefault("crafted_truth", {})[root] = {key: val}
            for kk, kind, pr in ((key, "true", [top] + stored), (bytes.fromhex("123457"), "true", [top] + stored),
                                 (bytes.fromhex("12"), "true", [top] + stored), (key, "withheld!" if stored else "true", [top] + stored[:-1] if stored else [top])):
                ops.append(("fromproof", root, kk, [HX.raw_obs(n) for n in pr]))
                meta.append((kk, root, kind))
    return ops, meta, r1, r2


def oracle(case, ops, meta, outs, r1, r2):
    truth = {r1: case["m1"], r2: case["m2"]}
    truth.update(case.get("crafted_truth", {}))
    stats = {"bad": 0, "multi": 0}
    for op, mt, out in zip(ops, meta, outs):
        if mt is None:
            continue
        k, root, kind = mt[:3]
        if kind == "proof":
            if isinstance(out, Exc):
                return f"get_proof raised {out!r} on a complete database", stats
            on_path = mt[3]
            if any(n not in on_path for n in out) or len(out) > len(on_path):
                return f"get_proof({k.hex()}) contains a node that is not on the key's path (or a node twice)", stats
            if len(out) >= 2:
                stats["multi"] += 1
            continue
        real = truth[root].get(k, b"")
        if kind == "true":
            if out != real:
                return f"get_from_proof(get_proof(k)) = {out!r}, get(k) = {real!r}", stats
        elif kind == "withheld!":
            if out != Exc(4):
                return f"a node of the key's path that is referenced by hash was withheld, yet get_from_proof answered {out!r} instead of BadTrieProof", stats
            stats["bad"] += 1
        else:
            if out == Exc(4):
                stats["bad"] += 1
            elif out != real:
                return f"corrupted proof ({kind}) returned {out!r}; the trie holds {real!r}", stats
    return None, stats


def corpus():
    m = {b"\x12\x34\x56": b"a" * 40, b"\x12\x34\x57": b"b" * 40, b"\x12": b"c", b"": b"d" * 33}
    w = [("set", k, v, "meth") for k, v in m.items()]
    out = [{"w1": w, "w2": [("set", b"\x12\x34", b"z" * 35, "meth")], "m1": m, "m2": {b"\x12\x34": b"z" * 35}, "seed": 7, "long": False}]
    # absent keys that end exactly where an extension ends (its child branch stored by hash), below the root branch and at the root
    for extra in ({b"\x77": b"x"}, {}):
        m2 = {b"\x12\x34\x56": b"a" * 40, b"\x12\x34\x66": b"b" * 40}
        m2.update(extra)
        w2 = [("set", k, v, "meth") for k, v in m2.items()]
        out.append({"w1": w2, "w2": [("set", b"\x12", b"z" * 35, "meth")], "m1": m2, "m2": {b"\x12": b"z" * 35}, "seed": 9,
                    "long": False, "must_keys": [b"\x12\x34", b"\x12", b"\x12\x34\x56", b"\x12\x34\x50"]})
    # the EMPTY trie (never written, and emptied again): the honest proof of any key is the empty tuple and verifies to b""
    out.append({"w1": [], "w2": [("set", b"\x12", b"z" * 35, "meth")], "m1": {}, "m2": {b"\x12": b"z" * 35}, "seed": 11, "long": False,
                "must_keys": [b"", b"\x12", b"\x12\x34"]})
    out.append({"w1": [("set", b"\x12\x34", b"a" * 40, "meth"), ("set", b"\x12", b"b", "meth"), ("del", b"\x12\x34", "meth"), ("del", b"\x12", "item")],
                "w2": [("set", b"\x12", b"z" * 35, "meth")], "m1": {}, "m2": {b"\x12": b"z" * 35}, "seed": 12, "long": False,
                "must_keys": [b"", b"\x12", b"\x12\x34"]})
    return out


def check(tier, seed):
    R = C.Reporter("C03", tier, seed)
    R.gate = C.proof_gate("C03")
    rng = random.Random(seed)
    n = 40 if tier == "quick" else 600
    cases = corpus() + [gen_case(rng, tier) for _ in range(n)]
    runs, outs_list = [], []
    for case in cases:
        if C.enough_violations():
            break
        ops, meta, r1, r2 = build_ops(case, tier)
        outs, t, backing = HX.run_history(False, ops)
        R.evaluations += sum(1 for m in meta if m and m[2] != "proof")
        bad, stats = oracle(case, ops, meta, outs, r1, r2)
        if bad:
            R.spec_violations.append((bad, {"prune": False, "ops": ops}))
        for m, o in zip(meta, outs):
            if m and m[2] != "proof":
                R.count(m[2] + ("_BadTrieProof" if o == Exc(4) else "_value"))
        if stats["bad"] and stats["multi"]:
            R.nontrivial.add(C.case_key(case["w1"]))
            if len(R.samples) < 2:
                R.samples.append(C.to_json({"writes": case["w1"], "n_fromproof": sum(1 for m in meta if m) }))
        runs.append((False, ops))
        outs_list.append(outs)
    shard = 3 if tier == "quick" else 8
    mism, errs, nsh, terms = HX.eval_hexary("C03", "cases", runs, outs_list, shard)
    R.shards, R.coq_errors = nsh, errs
    R.shards_ok = nsh - len(errs) - len({m // shard for m in mism})
    for m in mism[:3]:
        R.corr_mismatches.append(("impl≠model at get_proof / get_from_proof", {"prune": False, "ops": runs[m][1]},
                                  {"model": C.eval_show("C03", "cases", HX.IMPORTS, "hexary_run", "bool * list hop", terms[m])[-2500:]}))

    def search():
        r2_ = random.Random(seed + 19)
        for _ in range(400):
            c = gen_case(r2_, "thorough")
            ops, meta, a, b = build_ops(c, "thorough")
            outs, _, _ = HX.run_history(False, ops)
            bad, _ = oracle(c, ops, meta, outs, a, b)
            if bad:
                return bad, {"prune": False, "ops": ops}
        return None

    return R.finish(RULE, search=search)


def replay(payload):
    case = payload["case"]
    ops = [HX.tuplify(o) for o in case["ops"]]
    outs, _, _ = HX.run_history(case["prune"], ops)
    # re-derive the truth from the history itself
    m = {}
    for o in ops:
        HX.apply_model(m, o)
    bad = None
    from trie import HexaryTrie as _HT
    tt = _HT({})
    for w in ops:
        if w[0] in ("set", "del"):
            HX.step(tt, w, tt.db)
    for o, out in zip(ops, outs):
        if o[0] == "proof" and not isinstance(out, Exc):
            on_path = path_nodes(tt.db, bytes(tt.root_hash), o[1])
            if any(n not in on_path for n in out) or len(out) > len(on_path):
                bad = f"get_proof({o[1].hex()}) contains a node that is not on the key's path"
        if o[0] == "fromproof" and out != Exc(4):
            from trie import HexaryTrie
            t = HexaryTrie({})
            for w in ops:
                if w[0] in ("set", "del"):
                    HX.step(t, w, t.db)
            if o[1] == t.root_hash and out != m.get(o[2], b""):
                bad = f"get_from_proof returned {out!r}, trie holds {m.get(o[2], b'')!r}"
    print("replay:", "VIOLATES: " + bad if bad else "holds")
    return 1 if bad else 0
