"""C14 — SparseMerkleTree is a fixed-depth map whose root and branches always verify."""
import random

from .. import common as C
from ..common import Exc, cb, clist, cnat, cobs

IMPORTS = ("From Coq Require Import List NArith ZArith.\nFrom PyTrie.Base Require Import Bytes Result AMap.\n"
           "From PyTrie.Smt Require Import Smt SmtRun.")
CASE_T = "nat * bytes * list mop"
SPEC_T = "nat * bytes * list (bytes * bytes)"
RULE = ("histories of set/delete/blank writes with get/exists/branch/calc_root/from_db reads over key sizes 1,2,3 (full histories "
        "evaluated in the model) and 20,32 (short histories), blank and non-blank defaults, keys differing from a base key at every "
        "bit position; the final root is also compared with merkle_sparse (the specification) evaluated in Coq from the final "
        "mapping alone. non-trivial = at least two distinct keys written, one delete or blank write, and a read of each kind")


def keccak(x):
    from eth_hash.auto import keccak as k
    return k(x)


def gen_keys(rng, ks):
    base = bytes(rng.randrange(256) for _ in range(ks))
    keys = [base]
    for _ in range(5):
        bit = rng.randrange(ks * 8)
        k = bytearray(base)
        k[bit // 8] ^= 0x80 >> (bit % 8)
        keys.append(bytes(k))
    keys.append(bytes(rng.randrange(256) for _ in range(ks)))
    # the extreme paths (all-zero and all-one keys: leading zero bytes vanish in the integer form of the key) now and then
    if rng.random() < 0.3:
        keys.append(rng.choice([b"\x00" * ks, b"\xff" * ks, b"\x00" * (ks - 1) + b"\x01", b"\x80" + b"\x00" * (ks - 1)]))
    return keys


def gen_case(rng, tier, ks=None):
    if ks is None:
        ks = rng.choice([1, 1, 1, 2, 2, 3])
    default = rng.choice([b"", b"", b"\x00" * 32, b"d"])
    keys = gen_keys(rng, ks)
    big = ks >= 20
    n = rng.randint(2, 3) if big else (rng.randint(3, 9) if tier == "quick" else rng.randint(5, 25))
    ops = []
    for _ in range(n):
        r = rng.random()
        k = rng.choice(keys)
        if r < 0.45:
            ops.append(("set", k, rng.choice([b"v", b"w" * 40, b"", b"\x01", default])))
        elif r < 0.6:
            ops.append(("delete", k))
        elif r < 0.7:
            ops.append(("get", k))
        elif r < 0.78:
            ops.append(("exists", k))
        elif r < 0.85:
            ops.append(("branch", k))
        elif r < 0.92:
            ops.append(("calcroot", k))
        elif r < 0.95:
            ops.append(("fromdb", k))
        elif r < 0.97:
            ops.append(("reopen",))
        else:
            ops.append(("set", k[:-1] if rng.random() < 0.5 else k + b"\x00", b"v"))   # wrong length
    if big:
        # 32-byte keys: always read back through from_db and re-open (these cases are the ones that use the constructor defaults)
        ops += [("fromdb", keys[0]), ("reopen",), ("get", keys[0])]
    ops.append(("root",))
    return {"ks": ks, "default": default, "ops": ops}


def nodelike_case(rng, ks=None, default=None, level=None):
    """values that are byte-for-byte bodies of internal nodes: 2^level aligned neighbouring keys all set to the body of the
    default node one level above the leaves ( keccak(default) * 2 ), or of a higher default node, or of a stored node. Leaves
    and inner nodes share one hash domain; a tree that recognises "empty subtree" hashes, caches nodes by hash or follows a value
    as if it were a pair of child hashes is misled only by such values."""
    ks = ks or rng.choice([1, 1, 2])
    default = rng.choice([b"", b"d", b"\x00" * 32]) if default is None else default
    level = level or rng.choice([1, 1, 2])
    d = [keccak(default)]
    for _ in range(3):
        d.append(keccak(d[-1] + d[-1]))
    V = d[level - 1] + d[level - 1]           # body of the default node `level` levels above the leaves
    base = bytearray(rng.randrange(256) for _ in range(ks))
    base[-1] &= 0xFF ^ ((1 << level) - 1)
    group = [bytes(base[:-1] + bytes([base[-1] | i])) for i in range(1 << level)]
    other = bytes(rng.randrange(256) for _ in range(ks))
    ops = []
    for k in group:
        ops.append(("set", k, V))
        ops += [("get", k), ("exists", k), ("calcroot", k)]
    for k in group:
        ops += [("get", k), ("branch", k), ("calcroot", k)]
    ops += [("set", other, b"v"), ("get", group[0]), ("reopen",), ("get", group[-1]), ("calcroot", group[-1])]
    ops += [("set", group[0], b"w"), ("get", group[-1]), ("calcroot", group[0])]
    for k in group + [other]:
        ops.append(("delete", k))
    ops.append(("root",))
    return {"ks": ks, "default": default, "ops": ops}


def guard(f):
    try:
        return f()
    except Exception as e:
        return C.exc_obs(e, with_attrs=isinstance(e, KeyError) and e.args and isinstance(e.args[0], bytes))


def run_impl(case):
    from trie.smt import SparseMerkleTree, calc_root
    # the documented defaults (key_size=32, default=b"") are exercised by omitting the arguments whenever they equal them
    kw = {}
    if case["ks"] != 32:
        kw["key_size"] = case["ks"]
    if case["default"] != b"":
        kw["default"] = case["default"]
    t = SparseMerkleTree(**kw)
    outs = [bytes(t.root_hash)]
    aux = []
    for op in case["ops"]:
        k = op[0]
        if k == "set":
            outs.append(guard(lambda: [bytes(x) for x in t.set(op[1], op[2])]))
        elif k == "delete":
            outs.append(guard(lambda: [bytes(x) for x in t.delete(op[1])]))
        elif k == "get":
            outs.append(guard(lambda: bytes(t.get(op[1]))))
        elif k == "exists":
            outs.append(guard(lambda: bool(t.exists(op[1]))))
        elif k == "branch":
            outs.append(guard(lambda: [bytes(x) for x in t.branch(op[1])]))
        elif k == "calcroot":
            outs.append(guard(lambda: bytes(calc_root(op[1], t.get(op[1]), t.branch(op[1])))))
        elif k == "fromdb":
            outs.append(guard(lambda: bytes(SparseMerkleTree.from_db(t.db, t.root_hash, **kw).get(op[1]))))
        elif k == "reopen":
            t = SparseMerkleTree.from_db(t.db, t.root_hash, **kw)
            outs.append(None)
        else:
            outs.append(bytes(t.root_hash))
        aux.append(bytes(t.root_hash))
    return outs, aux


def spec_root(ks, default, m):
    """independent memoised sparse Merkle root (Python side of the oracle)"""
    depth = ks * 8
    defaults = [keccak(default)]
    for _ in range(depth):
        defaults.append(keccak(defaults[-1] + defaults[-1]))

    def rec(level, items):     # level = remaining depth; items = [(bits suffix as int list, value)]
        if not items:
            return defaults[level]
        if level == 0:
            return keccak(items[0][1])
        l = [(b[1:], v) for b, v in items if b[0] == 0]
        r = [(b[1:], v) for b, v in items if b[0] == 1]
        return keccak(rec(level - 1, l) + rec(level - 1, r))

    def bits(k):
        return [(byte >> (7 - i)) & 1 for byte in k for i in range(8)]
    return rec(depth, [(bits(k), v) for k, v in m.items()])


def path_hashes(ks, key, value, branch):
    bits = [(byte >> (7 - i)) & 1 for byte in key for i in range(8)]
    h = keccak(value)
    out = [h]
    for sib, b in zip(reversed(branch), reversed(bits)):
        h = keccak(sib + h) if b else keccak(h + sib)
        out.append(h)
    return list(reversed(out))      # root first


def oracle(case, outs, aux):
    ks, d = case["ks"], case["default"]
    m = {}
    init_root = outs[0]
    if init_root != spec_root(ks, d, {}):
        return "initial root is not the Merkle root of the all-default tree"
    for op, out, root in zip(case["ops"], outs[1:], aux):
        k = op[0]
        key = op[1] if len(op) > 1 else None
        if key is not None and len(key) != ks:
            if out != Exc(1):
                return f"wrong-length key not rejected with ValidationError in {k}"
            continue
        if k in ("set", "delete"):
            v = op[2] if k == "set" else d
            if isinstance(out, Exc):
                return f"{k} raised {out!r}"
            if v == d:
                m.pop(key, None)
            else:
                m[key] = v
            if root != spec_root(ks, d, m):
                return "root is not the Merkle root of the full tree over the current contents"
            if not m and root != init_root:
                return "cleared tree does not have the initial root"
        cur = m.get(key, d) if key is not None else None
        if k == "get":
            exp = Exc(7) if cur == b"" else cur
            if out != exp:
                return f"get returned {out!r}, expected {exp!r}"
        elif k == "exists":
            if out != (cur != b""):
                return "exists disagrees with the last value written"
        elif k in ("branch", "calcroot", "fromdb"):
            if cur == b"":
                if out != Exc(7):
                    return f"{k} of a blank key must raise KeyError"
            elif k == "calcroot":
                if out != root:
                    return "calc_root(key, value, branch(key)) is not the current root"
            elif k == "fromdb":
                if out != cur:
                    return "from_db reads differently"
            else:
                if isinstance(out, Exc) or len(out) != ks * 8:
                    return "branch has the wrong length"
                if path_hashes(ks, key, cur, out)[0] != root:
                    return "branch does not verify against the root"
        if k in ("set", "delete") and not isinstance(out, Exc):
            # returned hashes = the updated path, root to leaf, without the root
            from trie.smt import SparseMerkleTree  # noqa
            # recompute the siblings from the specification
            exp = expected_updates(ks, d, m, key, m.get(key, d))
            if out != exp:
                return "set/delete did not return the updated path hashes root-to-leaf"
    return None


def expected_updates(ks, d, m, key, value):
    """hashes of the nodes on key's path at depths 1..n in the specification tree"""
    depth = ks * 8
    bits = [(byte >> (7 - i)) & 1 for byte in key for i in range(8)]
    out = []
    for dpt in range(1, depth + 1):
        prefix = bits[:dpt]
        sub = {}
        for k2, v2 in m.items():
            b2 = [(byte >> (7 - i)) & 1 for byte in k2 for i in range(8)]
            if b2[:dpt] == prefix:
                sub[tuple(b2[dpt:])] = v2
        out.append(sub_root(depth - dpt, d, sub))
    return out


_DEF_CACHE = {}


def sub_root(level, d, sub):
    key = (d, level)
    if key not in _DEF_CACHE:
        h = keccak(d)
        for _ in range(level):
            h = keccak(h + h)
        _DEF_CACHE[key] = h
    if not sub:
        return _DEF_CACHE[key]
    if level == 0:
        return keccak(next(iter(sub.values())))
    l = {b[1:]: v for b, v in sub.items() if b[0] == 0}
    r = {b[1:]: v for b, v in sub.items() if b[0] == 1}
    return keccak(sub_root(level - 1, d, l) + sub_root(level - 1, d, r))


def cop(op):
    k = op[0]
    if k == "set":
        return f"MSet {cb(op[1])} {cb(op[2])}"
    names = {"delete": "MDelete", "get": "MGet", "exists": "MExists", "branch": "MBranch", "calcroot": "MCalcRoot",
             "fromdb": "MFromDbGet"}
    if k == "root":
        return "MRoot"
    if k == "reopen":
        return "MReopen"
    return f"{names[k]} {cb(op[1])}"


def coq_case(case, outs):
    return f"(({cnat(case['ks'])}, {cb(case['default'])}, {clist([cop(o) for o in case['ops']])}), {cobs(outs)})"


def final_mapping(case):
    m = {}
    for op in case["ops"]:
        if op[0] in ("set", "delete") and len(op[1]) == case["ks"]:
            v = op[2] if op[0] == "set" else case["default"]
            if v == case["default"]:
                m.pop(op[1], None)
            else:
                m[op[1]] = v
    return m


def nontrivial(case):
    ws = [o for o in case["ops"] if o[0] in ("set", "delete") and len(o[1]) == case["ks"]]
    kinds = {o[0] for o in case["ops"]}
    return (len({o[1] for o in ws if o[0] == "set" and o[2] != b""}) >= 2
            and any(o[0] == "delete" or (o[0] == "set" and o[2] == b"") for o in ws)
            and {"get", "branch"} <= kinds)


def corpus():
    k = b"\x53"
    return [
        {"ks": 1, "default": b"d", "ops": [("set", k, b"v"), ("reopen",), ("get", k), ("delete", k), ("get", k), ("exists", k),
                                          ("set", b"\x01", b"w"), ("delete", b"\x01"), ("root",)]},
        {"ks": 1, "default": b"", "ops": [("set", k, b"v"), ("get", k), ("branch", k), ("calcroot", k), ("set", b"\x52", b"w" * 40),
                                          ("get", b"\x52"), ("delete", k), ("get", k), ("exists", k), ("delete", b"\x52"), ("root",)]},
        {"ks": 2, "default": b"d", "ops": [("get", b"\x00\x01"), ("set", b"\x00\x01", b""), ("get", b"\x00\x01"), ("exists", b"\x00\x01"),
                                           ("fromdb", b"\x80\x00"), ("delete", b"\x00\x01"), ("set", b"\x00", b"x"), ("root",)]},
        # two keys holding the SAME value share one leaf entry in the database; overwriting / deleting one must leave the other
        {"ks": 1, "default": b"", "ops": [("set", b"\x03", b"v"), ("set", b"\x05", b"v"), ("set", b"\x03", b"w"), ("get", b"\x05"),
                                          ("exists", b"\x05"), ("branch", b"\x05"), ("set", b"\x07", b"v"), ("delete", b"\x07"),
                                          ("get", b"\x05"), ("calcroot", b"\x05"), ("reopen",), ("get", b"\x05"), ("root",)]},
        {"ks": 2, "default": b"d", "ops": [("set", b"\x00\x03", b"v" * 40), ("set", b"\x80\x05", b"v" * 40), ("delete", b"\x00\x03"),
                                           ("get", b"\x80\x05"), ("set", b"\x00\x03", b"d"), ("set", b"\x00\x03", b"x"), ("get", b"\x11\x11"),
                                           ("exists", b"\x80\x05"), ("root",)]},
    ]


def subclass_check(case, outs):
    """the same calls with keys, values and the default given as instances of a bytes subclass give the same results"""
    alt = run_impl(C.subify(dict(case)))[0]
    if alt != outs:
        i = next((j for j, (a, b) in enumerate(zip(alt, outs)) if a != b), None)
        return f"tree behaves differently when keys / values are instances of a bytes subclass (output {i}: {alt[i]!r} vs {outs[i]!r})"
    return None


def check(tier, seed):
    R = C.Reporter("C14", tier, seed)
    R.gate = C.proof_gate("C14")
    rng = random.Random(seed)
    n = 60 if tier == "quick" else 1200
    cases = corpus() + [nodelike_case(random.Random(3), 1, b"", 1), nodelike_case(random.Random(4), 1, b"d", 2)]
    cases += [nodelike_case(rng) for _ in range(2 if tier == "quick" else 25)]
    cases += [gen_case(rng, tier) for _ in range(n)]
    cases += [gen_case(rng, tier, ks) for ks in ([20, 32] if tier == "quick" else [20, 32] * 8 + list(range(4, 20)))]
    terms, spec_terms = [], []
    for case in cases:
        outs, aux = run_impl(case)
        R.evaluations += 1
        R.count(f"key_size_{case['ks']}")
        R.count("default_blank" if case["default"] == b"" else "default_nonblank")
        for o in case["ops"]:
            R.count("op_" + o[0])
        bad = oracle(case, outs, aux) or ((tier == "quick" or R.evaluations % 4 == 0) and subclass_check(case, outs)) or None
        if bad:
            R.spec_violations.append((bad, case))
        if nontrivial(case):
            R.nontrivial.add(C.case_key(case))
            if len(R.samples) < 2:
                R.samples.append(C.to_json(case))
        terms.append(coq_case(case, outs))
        m = final_mapping(case)
        bind = clist([f"({cb(k)}, {cb(v)})" for k, v in sorted(m.items())])
        spec_terms.append(f"(({cnat(case['ks'])}, {cb(case['default'])}, {bind}), {cobs(aux[-1])})")
    shard = 4
    mism, errs, nsh = C.eval_cases("C14", "cases", IMPORTS, "c14_run", CASE_T, terms, shard=shard)
    m2, e2, nsh2 = C.eval_cases("C14", "spec", IMPORTS, "c14_spec_root", SPEC_T, spec_terms, shard=shard)
    R.shards, R.coq_errors = nsh + nsh2, errs + e2
    R.shards_ok = R.shards - len(errs) - len(e2) - len({m // shard for m in mism}) - len({m // shard for m in m2})
    for m in m2[:2]:
        R.spec_violations.append(("root differs from merkle_sparse (Coq specification) of the final mapping", cases[m]))
    for m in mism[:3]:
        R.corr_mismatches.append(("impl≠model at SparseMerkleTree history", cases[m],
                                  {"impl": run_impl(cases[m])[0],
                                   "model": C.eval_show("C14", "cases", IMPORTS, "c14_run", CASE_T, terms[m])}))

    def search():
        r2 = random.Random(seed + 5)
        for _ in range(3000):
            c = gen_case(r2, "thorough")
            outs, aux = run_impl(c)
            bad = oracle(c, outs, aux)
            if bad:
                return bad, c
        return None

    return R.finish(RULE, search=search)


def replay(payload):
    case = payload["case"]
    case["ops"] = [tuple(o) for o in case["ops"]]
    outs, aux = run_impl(case)
    bad = oracle(case, outs, aux) or subclass_check(case, outs)
    print("replay:", "VIOLATES: " + bad if bad else "holds")
    return 1 if bad else 0
