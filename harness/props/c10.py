"""C10 — NodeIterator enumerates contents in key order; next() is the strict successor."""
import random

from .. import common as C
from .. import hexrun as HX
from .. import walkrun as WX
from ..common import Exc, cb, clist, cobs, copt
from .c02 import IMPORTS_T

RULE = ("random tries (keys that prefix other keys, the empty key, embedded and hashed nodes, 20/32-byte pools); next(k) for every "
        "stored key, every proper prefix / one-byte extension, b'', None and random keys; the full keys / items / values / nodes "
        "sequences; compared in Coq with titems / least_above / tnodes of the Yellow-Paper tree of the mapping. non-trivial = trie "
        "with >= 4 keys including a prefix pair, and queries hitting stored, absent-between and beyond-last keys")


def gen_case(rng, tier):
    long_pool = HX.make_long_pool(rng) if rng.random() < 0.25 else None
    writes, m = HX.gen_writes(rng, rng.randint(1, 9 if tier == "quick" else 20), long_pool)
    prune = rng.random() < 0.3
    neigh = []
    for k in m:
        for i in range(len(k)):
            for d in (1, -1, 0x10, -0x10):
                b = k[i] + d
                if 0 <= b <= 255:
                    neigh.append(k[:i] + bytes([b]))             # diverges from a stored key at byte i, nothing after
                    neigh.append(k[:i] + bytes([b]) + k[i + 1:])   # same length, one nibble up/down
    rng.shuffle(neigh)
    qs = [None, b""] + HX.related_keys(m.keys()) + neigh[:10] + [HX.gen_key(rng, long_pool) for _ in range(3)] + [b"\xff\xff\xff\xff\xff"]
    seen, queries = set(), []
    for q in qs:
        if q not in seen:
            seen.add(q)
            queries.append(q)
    if len(queries) > (22 if tier == "quick" else 80):
        queries = queries[:2] + rng.sample(queries[2:], 20 if tier == "quick" else 78)
    # second phase: the trie changes AFTER the iterator was used (directly, or through one squash_changes block - the root then
    # moves without a set / delete on the trie object itself), and the questions are asked again
    m2 = dict(m)
    writes2 = []
    for _ in range(rng.randint(1, 3)):
        wr = HX.gen_write(rng, m2.keys(), long_pool)
        if wr[0] == "set" and wr[2] != b"" and rng.random() < 0.5 and m2:
            wr = ("set", bytes([max(0, min(sorted(m2)[0][0] - 1, 255))]) if sorted(m2)[0] else b"\x00", wr[2], wr[3])   # a new smallest key
        writes2.append(wr)
        HX.apply_model(m2, wr)
    return {"prune": prune, "writes": writes, "m": m, "queries": queries, "writes2": writes2, "m2": m2, "batched2": rng.random() < 0.6,
            "queries2": [None] + [q for q in queries[1:] if rng.random() < 0.3][:6] + sorted(set(m) ^ set(m2))[:3]}


def run_case(case):
    w = WX.Walker(case["prune"], True)
    ops = [("trie", x) for x in case["writes"]] + [("iter_next", q) for q in case["queries"]]
    ops += [("iter_items",), ("iter_nodes",)]
    if case.get("writes2"):
        ops += [("trie", ("batch", case["writes2"], None))] if case["batched2"] else [("trie", x) for x in case["writes2"]]
        ops += [("iter_next", q) for q in case["queries2"]] + [("iter_items",)]
    outs = [w.step(op) for op in ops]
    # keys() and values() are projections of items(); check them directly
    from trie.iter import NodeIterator
    it = NodeIterator(w.trie)
    ks, vs = list(it.keys()), list(it.values())
    case["_interleaved"] = interleaved_walks(case, w.trie)
    return ops, outs, ks, vs, w


def interleaved_walks(case, trie_a):
    """Two walks in progress at once, over two different tries with related contents (iterators are lazy generators; a caller
    may advance several of them alternately): each must still yield exactly its own trie's pairs / nodes."""
    import itertools
    from trie import HexaryTrie
    from trie.iter import NodeIterator
    m = case["m2"] if case.get("writes2") else case["m"]      # the trie's contents when the walks are made
    if len(m) < 2:
        return None
    m2 = {}
    for i, (k, v) in enumerate(sorted(m.items())):
        if i % 3 == 0:
            m2[k] = v[::-1] + b"!"                       # same key, other value
        elif i % 3 == 1 and k:
            m2[k[:-1] + bytes([k[-1] ^ 0x05])] = v       # sibling key
        else:
            m2[k] = v
    tb = HexaryTrie({})
    for k, v in m2.items():
        tb[k] = v
    for what in ("items", "nodes"):
        ga, gb = getattr(NodeIterator(trie_a), what)(), getattr(NodeIterator(tb), what)()
        ra, rb = [], []
        try:
            for a, b in itertools.zip_longest(ga, gb):
                if a is not None:
                    ra.append(a)
                if b is not None:
                    rb.append(b)
        except Exception as e:
            return f"{what}() of two alternately advanced walks over different tries raised {type(e).__name__} on complete databases"
        if what == "items":
            if [(bytes(k), bytes(v)) for k, v in ra] != sorted(m.items()):
                return "items() of a trie walked alternately with a walk of another trie is not that trie's sorted contents"
            if [(bytes(k), bytes(v)) for k, v in rb] != sorted(m2.items()):
                return "items() of the second of two alternately advanced walks is not its trie's sorted contents"
        else:
            for tr, res in ((trie_a, ra), (tb, rb)):
                for prefix, node in res:
                    try:
                        if node != tr.traverse(prefix):
                            return f"nodes() of alternately advanced walks yielded a node that is not traverse({tuple(prefix)}) of its trie"
                    except Exception:
                        return f"nodes() of alternately advanced walks yielded prefix {tuple(prefix)} that cannot be traversed to in its trie"
    return None


def oracle(case, ops, outs, ks, vs):
    m = case["m"]
    skeys = sorted(m)
    nw = len(case["writes"])
    if case.get("_interleaved"):
        return case["_interleaved"]
    for q, out in zip(case["queries"], outs[nw:]):
        exp = (skeys[0] if skeys else None) if q is None else next((k for k in skeys if k > q), None)
        if out != exp:
            return f"next({q!r}) = {out!r}, expected {exp!r}"
    items = outs[nw + len(case["queries"])]
    if isinstance(items, Exc):
        return f"items() raised {items!r}"
    if items != [[k, m[k]] for k in skeys]:
        return "items() is not the stored pairs in ascending key order"
    mk = case["m2"] if case.get("writes2") else m          # keys()/values() are taken at the end of the run
    if ks != sorted(mk) or vs != [mk[k] for k in sorted(mk)]:
        return "keys()/values() are not the projections of the sorted contents"
    nodes = outs[nw + len(case["queries"]) + 1]
    if isinstance(nodes, Exc):
        return f"nodes() raised {nodes!r}"
    prefixes = [tuple(p) for p, _ in nodes]
    if len(set(prefixes)) != len(prefixes):
        return "nodes() yields a node twice"
    if prefixes != sorted(prefixes):
        return "nodes() is not parents-first / left-to-right (prefixes not in ascending tuple order)"
    if case.get("writes2"):
        m2 = case["m2"]
        s2 = sorted(m2)
        base = nw + len(case["queries"]) + 2 + (1 if case["batched2"] else len(case["writes2"]))
        for q, out in zip(case["queries2"], outs[base:]):
            exp = (s2[0] if s2 else None) if q is None else next((k for k in s2 if k > q), None)
            if out != exp:
                return f"after the trie changed ({'one squash_changes block' if case['batched2'] else 'direct writes'}): next({q!r}) = {out!r}, expected {exp!r}"
        items2 = outs[base + len(case["queries2"])]
        if isinstance(items2, Exc) or items2 != [[k, m2[k]] for k in s2]:
            return "after the trie changed: items() is not the stored pairs in ascending key order"
    return None


def spec_term(case, outs):
    """expected = what the implementation produced, in the shape of c10_spec_run"""
    nw = len(case["writes"])
    nq = len(case["queries"])
    items = outs[nw + nq]
    nodes = outs[nw + nq + 1]
    if isinstance(items, Exc) or isinstance(nodes, Exc) or any(isinstance(o, Exc) for o in outs[nw:nw + nq]):
        return None          # an exception is not something the specification side produces (the oracle has reported it)

    def nib(k):
        return [x for b in k for x in (b >> 4, b & 15)]
    exp_items = [[nib(k), v] for k, v in items]
    exp_next = [None if o is None else nib(o) for o in outs[nw:nw + nq]]
    exp_nodes = [[p, [h[0], h[1], h[2], h[4]]] for p, h in nodes]
    mp = clist([f"({cb(k)}, {cb(v)})" for k, v in sorted(case["m"].items())])
    qs = clist([copt(q, cb) for q in case["queries"]])
    return f"(({mp}, {qs}), {cobs([exp_items, exp_next, exp_nodes])})"


def check(tier, seed):
    R = C.Reporter("C10", tier, seed)
    R.gate = C.proof_gate("C10")
    rng = random.Random(seed)
    n = 90 if tier == "quick" else 1200
    cases = [{"prune": False, "writes": [("set", b"", b"e", "meth"), ("set", b"\x01", b"a" * 40, "meth"), ("set", b"\x01\x00", b"b", "meth"),
                                        ("set", b"\x01\x00\x00", b"c" * 33, "meth"), ("set", b"\x10", b"d", "meth")],
              "m": {b"": b"e", b"\x01": b"a" * 40, b"\x01\x00": b"b", b"\x01\x00\x00": b"c" * 33, b"\x10": b"d"},
              "queries": [None, b"", b"\x00", b"\x01", b"\x01\x00", b"\x01\x00\x00", b"\x01\x00\x01", b"\x0f", b"\x10", b"\x11"]}]
    # the trie with NO key (never written; emptied again; pruning or not): next() and next(k) return None, the sequences are empty
    for prune in (False, True):
        cases.append({"prune": prune, "writes": [], "m": {}, "queries": [None, b"", b"\x01", b"\xff\xff"]})
        cases.append({"prune": prune, "writes": [("set", b"\x12\x34", b"a" * 40, "meth"), ("set", b"\x12", b"b", "item"),
                                                 ("del", b"\x12\x34", "meth"), ("del", b"\x12", "item")],
                      "m": {}, "queries": [None, b"", b"\x12", b"\x12\x34"]})
    cases += [gen_case(rng, tier) for _ in range(n)]
    terms, specs, idx = [], [], []
    for ci, case in enumerate(cases):
        ops, outs, ks, vs, w = run_case(case)
        R.evaluations += len(case["queries"]) + 2
        bad = oracle(case, ops, outs, ks, vs)
        if bad:
            R.spec_violations.append((bad, {"prune": case["prune"], "ops": case["writes"], "queries": case["queries"]}))
        ksorted = sorted(case["m"])
        if len(ksorted) >= 4 and any(a != b and b.startswith(a) for a in ksorted for b in ksorted):
            R.nontrivial.add(C.case_key(case["writes"]))
            if len(R.samples) < 2:
                R.samples.append(C.to_json({"mapping": sorted(case["m"].items()), "queries": case["queries"][:8]}))
        R.count("keys", len(ksorted))
        terms.append(WX.coq_case(case["prune"], True, ops, outs))
        st = spec_term(case, outs)
        if st:
            specs.append(st)
            idx.append(ci)
    shard = 8 if tier == "quick" else 30
    mism, errs, nsh = C.eval_cases("C10", "cases", WX.IMPORTS, "walk_run", WX.CASE_T, terms, shard=shard)
    ms, es, nsh2 = C.eval_cases("C10", "spec", IMPORTS_T, "c10_spec_run", "list (bytes * bytes) * list (option bytes)", specs, shard=shard)
    R.shards, R.coq_errors = nsh + nsh2, errs + es
    R.shards_ok = R.shards - len(errs) - len(es) - len({m // shard for m in mism}) - len({m // shard for m in ms})
    for m in ms[:3]:
        c = cases[idx[m]]
        R.spec_violations.append(("NodeIterator output differs from titems / least_above / tnodes of the canonical tree (evaluated in Coq)",
                                  {"prune": c["prune"], "ops": c["writes"], "queries": c["queries"]}))
    for m in mism[:3]:
        R.corr_mismatches.append(("impl≠model at NodeIterator (next / items / nodes)",
                                  {"prune": cases[m]["prune"], "ops": cases[m]["writes"], "queries": cases[m]["queries"]},
                                  {"diff_positions": C.eval_diff("C10", "cases", WX.IMPORTS, "walk_run", WX.CASE_T, terms[m])}))

    def search():
        r2 = random.Random(seed + 47)
        for _ in range(2000):
            c = gen_case(r2, "thorough")
            ops, outs, ks, vs, w = run_case(c)
            bad = oracle(c, ops, outs, ks, vs)
            if bad:
                return bad, {"prune": c["prune"], "ops": c["writes"], "queries": c["queries"]}
        return None

    return R.finish(RULE, search=search)


def replay(payload):
    c = payload["case"]
    writes = [HX.tuplify(o) for o in c["ops"]]
    m = {}
    for wr in writes:
        HX.apply_model(m, wr)
    case = {"prune": c["prune"], "writes": writes, "m": m, "queries": c["queries"]}
    ops, outs, ks, vs, w = run_case(case)
    bad = oracle(case, ops, outs, ks, vs)
    print("replay:", "VIOLATES: " + bad if bad else "holds")
    return 1 if bad else 0
