"""C09 — a fog-guided walk finds everything, even while the trie changes."""
import random

from .. import common as C
from .. import hexrun as HX
from .. import walkrun as WX
from ..common import Exc

RULE = ("the walk protocol (nearest_unknown / nearest_right with random query keys, traverse from the root or traverse_from a "
        "TrieFrontierCache entry, simulated node on TraversedPartialPath, explore, cache add/delete, stale-entry drop on "
        "MissingTraversalNode) driven to fog completion under random schedules, with and without the frontier cache, prune on/off, "
        "with set/delete mutations (direct or batched) interleaved between steps. Checked: termination with the fog complete, every "
        "key whose value never changed is met with that value, nothing is met that was never stored, on a static trie met == contents. "
        "non-trivial = walk of >= 8 steps with >= 2 interleaved mutations, a simulated node or a stale-cache retry, and >= 3 stable keys")

MAX_STEPS = 600


def nib(k):
    return [x for b in k for x in (b >> 4, b & 15)]


def drive(rng, tier):
    """generate a schedule adaptively by running the implementation; returns the case and the oracle's verdict"""
    prune = rng.random() < 0.5
    use_cache = rng.random() < 0.6
    static = rng.random() < 0.2
    long_pool = HX.make_long_pool(rng) if rng.random() < 0.3 else None
    via_from = rng.random() < 0.4
    w = WX.Walker(prune, use_cache, via_from)
    tiny = rng.random() < 0.3
    writes, m = HX.gen_writes(rng, rng.randint(4, 12 if tier == "quick" else 20), long_pool, tiny=tiny)
    collapse = None
    if rng.random() < 0.3:
        # collapse family: P+Q (a key that prefixes two others, tiny values so the branch below is embedded), P+Q+00, P+Q+10,
        # and a sibling P' whose later deletion turns the branch at P into an extension spanning already-unexplored prefixes
        P, Pp = rng.choice([(b"\x12", b"\x13"), (b"\x00", b"\x01"), (b"\x10\x11", b"\x10\x21")])
        Q = bytes([rng.randrange(256)])
        tv = lambda: bytes([rng.choice(HX.VALBYTES)]) * rng.randint(1, 2)
        writes = [("set", P + Q, tv(), "meth"), ("set", P + Q + b"\x00", tv(), "meth"), ("set", P + Q + b"\x10", tv(), "meth"),
                  ("set", Pp + b"\x55", tv() if rng.random() < 0.5 else HX.gen_value(rng), "meth")]
        if rng.random() < 0.5:
            writes.append(("set", HX.gen_key(rng), HX.gen_value(rng), "meth"))
        m = {}
        for x in writes:
            HX.apply_model(m, x)
        collapse = ("del", Pp + b"\x55", "meth")
        static = False
        # the new extension spans unexplored prefixes: reaching them from the root NODE (traverse_from) ends inside it
        via_from = w.root_via_from = rng.random() < 0.7
    shrink = None
    directed = None
    if collapse is None and rng.random() < 0.25:
        # shrink family: K stored together with two longer keys K+a.., K+b..; the walk is first steered down below K (queries
        # aimed at K+a), then both longer keys are deleted, so that K collapses into a leaf ABOVE prefixes that are still
        # unexplored: traversing to those must find nothing (not a piece of K's leaf)
        K = rng.choice([b"\x12", b"\x12\x34", b"\x00", b""])
        a, b = rng.sample([b"\x00", b"\x01", b"\x10", b"\x55\x66", b"\xf0"], 2)
        val = lambda: HX.gen_value(rng) if rng.random() < 0.6 else bytes([rng.choice(HX.VALBYTES)]) * rng.randint(1, 3)
        writes = [("set", K, val(), "meth"), ("set", K + a, val(), "meth"), ("set", K + b, val(), "meth")]
        if rng.random() < 0.6:
            writes.append(("set", HX.gen_key(rng), HX.gen_value(rng), "meth"))
        rng.shuffle(writes)
        m = {}
        for x in writes:
            HX.apply_model(m, x)
        shrink = [("del", K + a, "meth"), ("del", K + b, "meth")]
        directed = (nib(K + a), rng.randint(1, 2 * len(K) + 2))
        static = False
    if collapse is None and shrink is None and rng.random() < 0.08:
        # deep family: keys LONGER than 32 bytes that fork only in their last byte / nibble (nodes deeper than 64 nibbles)
        base = bytes(rng.randrange(256) for _ in range(rng.choice([33, 34, 40])))
        writes = [("set", base, HX.gen_value(rng), "meth"), ("set", base[:-1] + bytes([base[-1] ^ rng.choice([0x01, 0x10])]), HX.gen_value(rng), "meth"),
                  ("set", HX.gen_key(rng), HX.gen_value(rng), "meth")]
        m = {}
        for x in writes:
            HX.apply_model(m, x)
    ops = [("trie", x) for x in writes]
    outs = [w.step(o) for o in ops]
    # a second, independent walk in the same process: another trie with related keys and other values, its own fog and its own
    # TrieFrontierCache(), advanced alternately with the walk under test. Nothing of it may leak into the walk under test
    # (its steps are not part of the recorded schedule; the walk under test is judged by its own oracle).
    shadow = None
    if rng.random() < 0.35:
        shadow = WX.Walker(False, True)
        for x in writes:
            if x[0] == "set" and x[2] != b"":
                shadow.step(("trie", ("set", x[1] if rng.random() < 0.6 else x[1][:-1] + b"\x3c", b"shadow-" + x[2][:40], "meth")))
    stable = dict(m)                 # keys whose value has not changed since the walk began
    ever = set((tuple(nib(k)), v) for k, v in m.items())
    stats = {"mut": 0, "partial": 0, "stale": 0, "steps": 0}
    done = False
    while not done and stats["steps"] < MAX_STEPS:
        r = rng.random()
        if directed is not None and stats["steps"] < directed[1]:
            op = ("step", True, directed[0])
            stats["steps"] += 1
        elif shrink:
            wr = shrink.pop(0)
            op = ("trie", wr)
            HX.apply_model(m, wr)
            stable.pop(wr[1], None)
            stats["mut"] += 1
        elif collapse is not None and stats["steps"] >= rng.choice([2, 2, 3]):
            wr = collapse
            collapse = None
            op = ("trie", wr)
            HX.apply_model(m, wr)
            if wr[1] in stable:
                del stable[wr[1]]
            stats["mut"] += 1
        elif not static and r < 0.3:
            # mutate
            if m and rng.random() < 0.45:
                wr = ("del", rng.choice(sorted(m)), "meth")      # collapses branches under explored prefixes
            else:
                wr = HX.gen_write(rng, m.keys(), long_pool)
            if rng.random() < 0.3:
                op = ("trie", ("batch", [wr], None))
            else:
                op = ("trie", wr)
            HX.apply_model(m, wr)
            k = wr[1]
            if k in stable and m.get(k) != stable[k]:
                del stable[k]
            if k in m:
                ever.add((tuple(nib(k)), m[k]))
            stats["mut"] += 1
        elif r < 0.27 and use_cache:
            op = ("reset_cache",)
        else:
            members = w.fog_list()
            key = list(rng.choice(members)) + [rng.randrange(16) for _ in range(rng.randint(0, 2))] if members and rng.random() < 0.6 \
                else [rng.randrange(16) for _ in range(rng.randint(0, 5))]
            op = ("step", rng.random() < 0.6, key)
            stats["steps"] += 1
        out = w.step(op)
        ops.append(op)
        outs.append(out)
        if shadow is not None and op[0] == "step" and not shadow.fog.is_complete:
            shadow.step(("step", True, [rng.randrange(16) for _ in range(rng.randint(0, 3))]))
        if op[0] == "step":
            if out == Exc(15) or w.says_done:
                done = True
            elif isinstance(out, list) and len(out) == 5 and out[2]:
                stats["partial"] += 1
            elif isinstance(out, list) and len(out) == 2 and isinstance(out[1], Exc) and out[1].tag == 9:
                stats["stale"] += 1
    bad = None
    if not done:
        bad = f"walk did not complete within {MAX_STEPS} steps"
    elif not w.fog.is_complete:
        bad = "PerfectVisibility raised but the fog is not complete"
    else:
        met = set(w.met)
        for k, v in stable.items():
            if (tuple(nib(k)), v) not in met:
                bad = f"stable key {k.hex()} was never met with its value"
                break
        if bad is None:
            for kv in met:
                if kv not in ever:
                    bad = f"met a pair that was never stored: key nibbles {list(kv[0])}"
                    break
        if bad is None and stats["mut"] == 0:
            if sorted(met) != sorted(ever) or len(w.met) != len(met):
                bad = "on an unchanging trie the pairs met are not exactly the contents (or one was met twice)"
    case = {"prune": prune, "use_cache": use_cache, "ops": ops, "via_from": via_from}
    return case, outs, bad, stats, len(stable)


def check(tier, seed):
    R = C.Reporter("C09", tier, seed)
    R.gate = C.proof_gate("C09")
    rng = random.Random(seed)
    n = 90 if tier == "quick" else 900
    cases, outs_list = [], []
    for _ in range(n):
        case, outs, bad, stats, nstable = drive(rng, tier)
        R.evaluations += 1
        R.count("steps", stats["steps"])
        R.count("mutations", stats["mut"])
        R.count("partial_traversals", stats["partial"])
        R.count("stale_cache_retries", stats["stale"])
        R.count(f"cache_{int(case['use_cache'])}_prune_{int(case['prune'])}")
        R.count(f"root_descent_via_traverse_from_{int(case['via_from'])}")
        if bad:
            R.spec_violations.append((bad, case))
        if stats["steps"] >= 8 and stats["mut"] >= 2 and (stats["partial"] or stats["stale"]) and nstable >= 3:
            R.nontrivial.add(C.case_key(case))
            if len(R.samples) < 2:
                R.samples.append(C.to_json({"prune": case["prune"], "use_cache": case["use_cache"], "ops": case["ops"][:14]}))
        cases.append(case)
        outs_list.append(outs)
    terms = [WX.coq_case(c["prune"], c["use_cache"], c["ops"], o) for c, o in zip(cases, outs_list)]
    shard = 5 if tier == "quick" else 20
    mism, errs, nsh = C.eval_cases("C09", "cases", WX.IMPORTS, "walk_run", WX.CASE_T, terms, shard=shard)
    R.shards, R.coq_errors = nsh, errs
    R.shards_ok = nsh - len(errs) - len({m // shard for m in mism})
    for m in mism[:3]:
        R.corr_mismatches.append(("impl≠model at a walk step (chosen prefix / node or simulated node / new fog / met)", cases[m],
                                  {"diff_positions": C.eval_diff("C09", "cases", WX.IMPORTS, "walk_run", WX.CASE_T, terms[m])}))

    def search():
        r2 = random.Random(seed + 53)
        for _ in range(1500):
            case, outs, bad, stats, _ = drive(r2, "thorough")
            if bad:
                return bad, case
        return None

    return R.finish(RULE, search=search,
                    partial_note="C09_* (tree-level LTS) and C09_D_* (the database-level walk refines it) are theorems for every schedule of steps and direct "
                                 "writes; batches / snapshots between steps and the walker's exception handling rest on this run's oracle")


def replay(payload):
    case = payload["case"]
    ops = []
    for o in case["ops"]:
        if o[0] == "trie":
            ops.append(("trie", HX.tuplify(o[1])))
        else:
            ops.append(tuple(o))
    w = WX.Walker(case["prune"], case["use_cache"], case.get("via_from", False))
    m, stable, ever, walking = {}, None, set(), False
    for op in ops:
        if op[0] == "step" and not walking:
            walking = True
            stable = dict(m)
        w.step(op)
        if op[0] == "trie":
            ws = [op[1]] if op[1][0] != "batch" else op[1][1]
            for wr in ws:
                HX.apply_model(m, wr)
                if walking and wr[1] in stable and m.get(wr[1]) != stable[wr[1]]:
                    del stable[wr[1]]
            for k, v in m.items():
                ever.add((tuple(nib(k)), v))
    bad = None
    if w.fog.is_complete and stable is not None:
        met = set(w.met)
        for k, v in stable.items():
            if (tuple(nib(k)), v) not in met:
                bad = f"stable key {k.hex()} never met"
        for kv in met:
            if kv not in ever:
                bad = "met a pair never stored"
    elif stable is not None:
        bad = "walk incomplete"
    print("replay:", "VIOLATES: " + bad if bad else "holds")
    return 1 if bad else 0
