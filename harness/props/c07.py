"""C07 — missing nodes: operations fail atomically and report the truth."""
import random

from .. import common as C
from .. import hexrun as HX
from ..common import Exc

RULE = ("tries built directly or in a batch, prune on/off; then a subset of the reachable node bodies is removed (every single node "
        "in turn, and random subsets) and get / exists / set / delete / traverse / traverse_from are run on stored, absent and "
        "prefix keys, outside and inside squash_changes; compared: result or exception with all attributes, state before/after a "
        "failing call; then the retry loop that supplies only the reported node, counting requests. non-trivial = a trie with >= 3 "
        "hashed nodes, a failing write whose path crosses a normalisation (delete under a branch), and a retry loop of >= 2 rounds")


def gen_case(rng, tier):
    prune = rng.random() < 0.5
    long_pool = HX.make_long_pool(rng) if rng.random() < 0.4 else None
    writes, m = HX.gen_writes(rng, rng.randint(3, 8 if tier == "quick" else 16), long_pool)
    # make hashed nodes likely
    writes = [(w[0], w[1], (w[2] if len(w[2]) >= 33 or w[2] == b"" else w[2] * 33)[:64], w[3]) if w[0] == "set" else w for w in writes]
    m = {}
    for w in writes:
        HX.apply_model(m, w)
    return {"prune": prune, "writes": writes, "batched_build": rng.random() < 0.3, "m": m, "seed": rng.randrange(1 << 30),
            "long": long_pool}


def build(case):
    from trie import HexaryTrie
    backing = C.FailingDict()
    t = HexaryTrie(backing, prune=case["prune"])
    build_ops = [("batch", case["writes"], None)] if case["batched_build"] else list(case["writes"])
    for op in build_ops:
        HX.step(t, op, backing)
    return t, backing, build_ops


def corpus():
    """fixed shapes that the random generator only sometimes produces: a branch with exactly two hashed children (leaf +
    leaf, leaf + extension), every single node removed in turn, and the writes that make the branch collapse onto its
    last child (which must be READ, hence reported when it is the missing one)"""
    out = []
    for prune in (False, True):
        for keys in ([b"\x12\x34", b"\x12\x56"], [b"\x12\x34", b"\x12\x56\x78", b"\x12\x56\x79"],
                     [b"\x34", b"\x56"]):
            writes = [("set", k, bytes([0x61 + i]) * 40, "meth") for i, k in enumerate(keys)]
            m = {w[1]: w[2] for w in writes}
            probes = [("del", keys[0], "meth"), ("del", keys[1], "item"), ("set", keys[0], b"", "meth"),
                      ("set", keys[0][:1] + b"\x99", b"z" * 40, "meth"), ("get", keys[1], "meth")]
            out.append({"prune": prune, "writes": writes, "batched_build": False, "m": m, "seed": 5 + len(keys),
                        "long": None, "probes": probes, "all_subsets": True})
        # a write that creates a node byte-identical to a live node elsewhere in the trie (same remaining path, same value):
        # when that other node's body is the absent one, the write is off its path, succeeds, and must store the twin
        V = b"V" * 40
        writes = [("set", bytes.fromhex("10aa"), V, "meth"), ("set", bytes.fromhex("356000"), b"1" * 40, "meth"),
                  ("set", bytes.fromhex("357000"), b"2" * 40, "meth")]
        probes = [("set", bytes.fromhex("3550aa"), V, "meth"), ("get", bytes.fromhex("3550aa"), "meth"),
                  ("get", bytes.fromhex("10aa"), "meth"), ("del", bytes.fromhex("3550aa"), "meth")]
        out.append({"prune": prune, "writes": writes, "batched_build": False, "m": {w[1]: w[2] for w in writes}, "seed": 11,
                    "long": None, "probes": probes, "all_subsets": True})
        # two byte-identical SUB-TRIES (extension -> branch -> two hashed leaves) under different root slots: every node of
        # them is referenced twice; a write through one copy fails at a missing node BELOW the shared nodes and must leave
        # their reference counts alone; the retry must not dereference them twice
        W = b"W" * 40
        writes = [("set", bytes.fromhex("10aa00"), V, "meth"), ("set", bytes.fromhex("10aa01"), W, "meth"),
                  ("set", bytes.fromhex("20aa00"), V, "meth"), ("set", bytes.fromhex("20aa01"), W, "meth")]
        probes = [("set", bytes.fromhex("10aa00"), b"X" * 40, "meth"), ("del", bytes.fromhex("20aa01"), "item"),
                  ("get", bytes.fromhex("20aa00"), "meth"), ("set", bytes.fromhex("10aa02"), b"Y" * 33, "meth")]
        out.append({"prune": prune, "writes": writes, "batched_build": False, "m": {w[1]: w[2] for w in writes}, "seed": 13,
                    "long": None, "probes": probes, "all_subsets": True})
    return out


def probe_ops(case, rng, full, inside_batch):
    if case.get("probes"):
        return [tuple(p) for p in case["probes"]]
    keys = HX.related_keys(case["m"].keys())
    rng.shuffle(keys)
    keys = keys[:5]
    ops = []
    for k in keys:
        r = rng.random()
        if r < 0.3:
            ops.append(("get", k, "meth"))
        elif r < 0.4:
            ops.append(("exists", k, "item"))
        elif r < 0.6:
            ops.append(("set", k, bytes([0x71]) * rng.choice([1, 40]), "meth"))
        elif r < 0.8:
            ops.append(("del", k, "meth"))
        elif r < 0.9:
            ops.append(("traverse", [x for b in k for x in (b >> 4, b & 15)][: rng.randint(0, 2 * len(k))]))
        else:
            ns = [x for b in k for x in (b >> 4, b & 15)]
            cut = rng.randint(0, len(ns))
            ops.append(("traverse_from", ns[:cut], ns[cut:]))
    if rng.random() < 0.5:
        ops.insert(rng.randint(0, len(ops)), ("root_node",))
    return ops


def run_case(case, tier):
    """returns list of (prune, ops, outs), violation|None, stats"""
    rng = random.Random(case["seed"])
    t0, backing0, build_ops = build(case)
    full = dict(backing0)
    nodes = sorted(HX.reachable(backing0, t0.root_hash))
    subsets = [[h] for h in nodes]
    for _ in range(2 if tier == "quick" else 6):
        if len(nodes) >= 2:
            subsets.append(rng.sample(nodes, rng.randint(2, len(nodes))))
    if case.get("all_subsets"):
        subsets = [[h] for h in nodes]
    elif tier == "quick" and len(subsets) > 5:
        subsets = rng.sample(subsets, 5)
    runs = []
    bad = None
    stats = {"hashed": len(nodes), "retry_rounds": 0, "fail_writes": 0}
    for removed in subsets:
        t, backing, _ = build(case)
        inside = rng.random() < 0.3 and not case.get("probes")
        probes = probe_ops(case, rng, full, inside)
        ops = list(build_ops) + [("drop", h) for h in removed] + [("state",)]
        pre = len(ops)
        for p in probes:
            ops.append(p)
            ops.append(("state",))
        if inside:
            ops = ops[:pre] + [("batch", [p for p in probes], None), ("state",)]
        outs = []
        t = None
        from trie import HexaryTrie
        backing = C.FailingDict()
        t = HexaryTrie(backing, prune=case["prune"])
        # reference: the same history on a database that never loses anything
        cback = C.FailingDict()
        tc = HexaryTrie(cback, prune=False)
        last_state = None
        for op in ops:
            ref = None
            if op[0] in ("get", "exists", "traverse", "traverse_from", "root_node"):
                ref = HX.step(tc, op, cback)
            raw_before = None if t._ref_count is None else dict(t._ref_count)
            out = HX.step(t, op, backing)
            outs.append(out)
            if (bad is None and not inside and op[0] in ("set", "del") and isinstance(out, Exc) and out.tag == 8
                    and raw_before is not None and dict(t._ref_count) != raw_before):
                bad = (f"failed {op[0]} touched the reference-count table (entries added or changed, zero-valued ones included): "
                       f"{len(raw_before)} -> {len(t._ref_count)} entries")
            if op[0] in ("set", "del", "batch") and not (isinstance(out, Exc) or (op[0] == "batch" and out[1] is not None)):
                cback.log = []
                HX.step(tc, op, cback)          # mirror successful writes only
                written, cback.log = set(cback.log), None
                if bad is None and op[0] != "batch" and not inside and bytes(t.root_hash) == bytes(tc.root_hash):
                    # same result also in the database: a node of the new trie may be absent only if it was absent before
                    # and the operation (as run on the complete database) did not store it
                    gone = [h for h in HX.reachable(cback, tc.root_hash) if not dict.__contains__(backing, h)]
                    for h in gone:
                        if h in written or h not in removed:
                            bad = (f"{op[0]} succeeded on the incomplete database but did not store node {h.hex()[:12]}, which the "
                                   "same call stores on the complete database: the new trie is unreadable")
                if bad is None and op[0] != "batch" and not inside and bytes(t.root_hash) != bytes(tc.root_hash):
                    bad = (f"{op[0]} on the incomplete database succeeded with a different result (root hash) than on the "
                           "complete database instead of raising MissingTrieNode")
            if op[0] == "state":
                last_state = out
            elif bad is None and not inside and op[0] in ("get", "exists", "set", "del", "traverse", "traverse_from", "root_node"):
                bad = bad or check_report(case, op, out, removed, dict(cback), t, backing, last_state, stats, ref)
        if bad is None and inside:
            for o, x in zip(ops[pre][1], outs[pre][0]):
                if isinstance(x, Exc) and x.tag in (8, 9):
                    if x.args[0] not in removed:
                        bad = "inside a batch: reported hash is not a missing node"
        runs.append((case["prune"], ops, outs))
        # retry loop on the real code: supply only the reported node
        if bad is None:
            bad = retry_loop(case, removed, full, stats)
        if bad is None:
            bad = reopened_pruning_probe(probes, removed, full, bytes(t0.root_hash))
    return runs, bad, stats


def reopened_pruning_probe(probes, removed, full, root):
    """a PRUNING trie opened on an existing database (its count table starts empty: nothing on the path is tracked, as for the
    batch trie of a non-pruning trie): a write that fails at a missing node leaves root, database and the count TABLE - zero
    entries included - exactly as they were"""
    from trie import HexaryTrie
    db = C.FailingDict({k: v for k, v in full.items() if k not in removed})
    t = HexaryTrie(db, root, prune=True)
    for op in probes:
        if op[0] not in ("set", "del"):
            continue
        before = (bytes(t.root_hash), dict(db), dict(t._ref_count))
        out = HX.step(t, op, db)
        if isinstance(out, Exc) and out.tag == 8:
            after = (bytes(t.root_hash), dict(db), dict(t._ref_count))
            if after != before:
                what = "root" if after[0] != before[0] else ("database" if after[1] != before[1] else "reference-count table")
                return f"a failed {op[0]} on a pruning trie opened over an existing database changed its {what}"
            if t._pending_prune_keys is not None:
                return "pending prune table left behind by a failed call (re-opened pruning trie)"
        elif isinstance(out, Exc):
            break          # e.g. ValidationError from pruning an untracked, absent node: outside what this probe is about
    return None


def complete_result(case, op, full):
    """the same call on the complete database"""
    from trie import HexaryTrie
    backing = C.FailingDict(full)
    t0, _, _ = build(case)
    t = HexaryTrie(backing, t0.root_hash, prune=False)
    return HX.step(t, op, backing)


def check_report(case, op, out, removed, full, t, backing, last_state, stats, ref):
    if isinstance(out, list) and len(out) == 1 and isinstance(out[0], Exc):
        out = out[0]          # traverse_from: failure of the first leg
    if isinstance(ref, list) and len(ref) == 1 and isinstance(ref[0], Exc):
        ref = ref[0]
    if isinstance(out, Exc) and out.tag in (8, 9):
        h = out.args[0]
        if h not in removed or dict.__contains__(backing, h):
            return f"{op[0]}: reported hash {h.hex()[:8]} is not an absent node"
        if out.tag == 8:
            if out.args[1] != bytes(t.root_hash) or out.args[2] != op[1]:
                return f"{op[0]}: MissingTrieNode reports a wrong root hash or key"
            pre = out.args[3]
            if op[0] in ("get", "exists"):
                ns = [x for b in op[1] for x in (b >> 4, b & 15)]
                if pre is None or list(pre) != ns[: len(pre)]:
                    return "get: MissingTrieNode.prefix is not a prefix of the key"
                if not on_path(full, bytes(t.root_hash), list(pre), h):
                    return "get: the nibble prefix does not lead to the missing node"
        else:
            pre = out.args[1]
            if op[0] == "root_node" and (list(pre) != [] or h != bytes(t.root_hash)):
                return "root_node: MissingTraversalNode does not name the root at the empty path"
            if op[0] == "traverse" and (list(pre) != list(op[1])[: len(pre)] or not on_path(full, bytes(t.root_hash), list(pre), h)):
                return "traverse: nibbles_traversed does not lead to the missing node"
        if op[0] in ("set", "del") and out.tag == 8:
            # the missing node lies on the requested key's path: it is the reference reached by some prefix of the key's
            # nibbles — or, for a delete, a sibling of such a reference (the last remaining child that a collapsing branch
            # is merged with)
            ns = [x for b in op[1] for x in (b >> 4, b & 15)]
            cands = [ns[:i] for i in range(len(ns) + 1)]
            if op[0] == "del" or op[2] == b"":          # set(key, b"") is a delete
                cands += [ns[:i] + [n] for i in range(len(ns) + 1) for n in range(16)]
            if not any(on_path(full, bytes(t.root_hash), c, h) for c in cands):
                return f"{op[0]}: the reported missing node {h.hex()[:8]} does not lie on the key's path"
        if op[0] in ("set", "del"):
            stats["fail_writes"] += 1
            now = HX.state_obs(t)
            if now != last_state:
                return f"failed {op[0]} changed root / database / reference counts"
            if t._pending_prune_keys is not None:
                return "pending prune table left behind by a failed call"
    elif op[0] in ("get", "exists", "traverse", "traverse_from", "root_node"):
        if out != ref:
            return f"{op[0]} on the incomplete database returned {out!r}; complete database gives {ref!r}"
    return None


def on_path(full, root, pre, h):
    """following the nibbles `pre` from root in the complete database reaches reference h"""
    import rlp
    from trie.utils.nodes import get_node_type, extract_key
    ref = root
    rest = list(pre)
    while True:
        if not rest:
            return ref == h
        if isinstance(ref, list):
            node = ref
        else:
            if ref not in full:
                return False
            node = rlp.decode(full[ref])
        ty = get_node_type(node)
        if ty == 3:
            ref = node[rest[0]]
            rest = rest[1:]
        elif ty == 2:
            k = list(extract_key(node))
            if rest[: len(k)] != k:
                return False
            rest = rest[len(k):]
            ref = node[1]
        else:
            return False


def retry_loop(case, removed, full, stats):
    """feed only the reported node and retry; must converge to the complete-database result, each node asked once"""
    from trie import HexaryTrie
    from trie.exceptions import MissingTrieNode, MissingTraversalNode
    rng = random.Random(case["seed"] + len(removed))
    keys = HX.related_keys(case["m"].keys())
    k = rng.choice(keys)
    for kind in ("get", "set", "del"):
        t, backing, _ = build(case)
        for h in removed:
            dict.pop(backing, h, None)
        asked = []
        for _ in range(200):
            try:
                if kind == "get":
                    res = t.get(k)
                elif kind == "set":
                    res = t.set(k, b"R" * 40)
                else:
                    res = t.delete(k)
                break
            except (MissingTrieNode, MissingTraversalNode) as e:
                h = bytes(e.missing_node_hash)
                if h in asked:
                    return f"retry loop ({kind}) asked twice for node {h.hex()[:8]}"
                if h not in full:
                    return f"retry loop ({kind}) asked for a node that never existed"
                asked.append(h)
                dict.__setitem__(backing, h, full[h])
        else:
            return f"retry loop ({kind}) did not converge"
        stats["retry_rounds"] = max(stats["retry_rounds"], len(asked))
        m = dict(case["m"])
        if kind == "get" and res != m.get(k, b""):
            return f"retry loop get returned {res!r}, expected {m.get(k, b'')!r}"
        if kind == "set":
            m[k] = b"R" * 40
        if kind == "del":
            m.pop(k, None)
        # final contents must be right (feeding further nodes as needed)
        for kk in sorted(m):
            for _ in range(200):
                try:
                    if t.get(kk) != m[kk]:
                        return f"after the retry loop ({kind}) key {kk.hex()} reads a wrong value"
                    break
                except MissingTrieNode as e:
                    dict.__setitem__(backing, bytes(e.missing_node_hash), full[bytes(e.missing_node_hash)])
    return None


def check(tier, seed):
    R = C.Reporter("C07", tier, seed)
    R.gate = C.proof_gate("C07")
    rng = random.Random(seed)
    n = 26 if tier == "quick" else 300
    cases = corpus() + [gen_case(rng, tier) for _ in range(n)]
    runs_all, outs_all, owner = [], [], []
    for ci, case in enumerate(cases):
        runs, bad, stats = run_case(case, tier)
        R.evaluations += len(runs)
        R.count("hashed_nodes", stats["hashed"])
        R.count("failing_writes", stats["fail_writes"])
        R.count("max_retry_rounds_sum", stats["retry_rounds"])
        if bad:
            R.spec_violations.append((bad, {k: v for k, v in case.items() if k != "m"}))
        if stats["hashed"] >= 3 and stats["fail_writes"] and stats["retry_rounds"] >= 2:
            R.nontrivial.add(C.case_key(case["writes"]))
            if len(R.samples) < 2:
                R.samples.append(C.to_json({"writes": case["writes"], "prune": case["prune"]}))
        for p, ops, outs in runs:
            runs_all.append((p, ops))
            outs_all.append(outs)
            owner.append(ci)
    shard = 6 if tier == "quick" else 20
    mism, errs, nsh, terms = HX.eval_hexary("C07", "cases", runs_all, outs_all, shard)
    R.shards, R.coq_errors = nsh, errs
    R.shards_ok = nsh - len(errs) - len({m // shard for m in mism})
    for m in mism[:3]:
        R.corr_mismatches.append(("impl≠model on an incomplete database (results / exception attributes / state)",
                                  {"prune": runs_all[m][0], "ops": runs_all[m][1]},
                                  {"impl": outs_all[m],
                                   "model": C.eval_show("C07", "cases", HX.IMPORTS, "hexary_run", "bool * list hop", terms[m])[-2500:]}))

    def search():
        r2 = random.Random(seed + 37)
        for _ in range(150):
            c = gen_case(r2, "thorough")
            _, bad, _ = run_case(c, "thorough")
            if bad:
                return bad, {k: v for k, v in c.items() if k != "m"}
        return None

    return R.finish(RULE, search=search,
                    partial_note="same-or-missing (reads and writes), truthful reports, atomic failure and retry convergence (get / traverse; set / delete on "
                                 "non-pruning tries and on the exact stores of pruning tries) are theorems; calls inside squash_changes rest on correspondence")


def replay(payload):
    case = payload["case"]
    if "writes" in case:
        case["writes"] = [HX.tuplify(o) for o in case["writes"]]
        case["m"] = {}
        for w in case["writes"]:
            HX.apply_model(case["m"], w)
        _, bad, _ = run_case(case, "thorough")
    else:
        bad = None
    print("replay:", "VIOLATES: " + bad if bad else "holds")
    return 1 if bad else 0
