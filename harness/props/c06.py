"""C06 — pruning is exact: database holds precisely the live nodes, counts are true."""
import random

from .. import common as C
from .. import hexrun as HX
from ..common import Exc

RULE = ("pruning histories from an empty database mixing direct writes and squash_changes batches (committed and aborted), with "
        "repeated values (shared sub-tries), values around the 32-byte embedding threshold, no-op rewrites, deletes of absent keys; "
        "after EVERY public call: set(db) == set(regenerate_ref_count()), non-zero ref_count == regenerate_ref_count(), every stored "
        "key readable. non-trivial = history with a shared (count >= 2) node at some point, a batch, a delete that collapses a branch")


def gen_case(rng, tier):
    n = rng.randint(4, 10) if tier == "quick" else rng.randint(8, 30)
    m = {}
    ops = []
    shared_vals = [bytes([rng.choice(HX.VALBYTES)]) * rng.choice([33, 40, 64]) for _ in range(2)]

    def write():
        r = rng.random()
        if r < 0.4:
            # identical sub-tries: same suffix+value under two different first bytes
            suffix = rng.choice([b"\x11", b"\x11\x12", b"\x00"])
            return ("set", bytes([rng.choice([0x00, 0x10, 0x01])]) + suffix, rng.choice(shared_vals), "meth")
        if r < 0.4 and m:
            k = rng.choice(sorted(m))
            return ("set", k, m[k], "item")             # no-op rewrite
        return HX.gen_write(rng, m.keys())

    if rng.random() < 0.25:
        fam = HX.gen_shared_family(rng)
        if rng.random() < 0.4:
            for w in fam:
                HX.apply_model(m, w)
            ops.append(("batch", fam, None))
            ops += [("state",), ("regen",)]
        else:
            k = rng.randint(0, len(fam))
            for w in fam[:k]:
                HX.apply_model(m, w)
                ops += [w, ("state",), ("regen",)]
            if fam[k:]:
                if rng.random() < 0.4:
                    for w in fam[k:]:
                        HX.apply_model(m, w)
                    ops += [("batch", fam[k:], None), ("state",), ("regen",)]
                else:
                    for w in fam[k:]:
                        HX.apply_model(m, w)
                        ops += [w, ("state",), ("regen",)]
    if rng.random() < 0.15:
        prior, body = HX.gen_there_and_back(rng)
        for w in prior:
            HX.apply_model(m, w)
            ops += [w, ("state",), ("regen",)]
        op = ("batch", body, None)
        HX.apply_model(m, op)
        ops += [op, ("state",), ("regen",)]
    i = 0
    while i < n:
        r = rng.random()
        if r < 0.6:
            w = write()
            HX.apply_model(m, w)
            ops.append(w)
            i += 1
        else:
            k = rng.randint(1, 4)
            inner = [write() for _ in range(k)]
            inner = HX.nest_some(rng, inner, 0.3)
            k2 = len(inner)
            ab = None if rng.random() < 0.6 else rng.randint(0, k2)
            if ab is None:
                for w in inner:
                    HX.apply_model(m, w)
            ops.append(("batch", inner, ab))
            i += k
        ops.append(("state",))
        ops.append(("regen",))
    return ops


def run_and_check(ops):
    from trie import HexaryTrie
    backing = C.FailingDict()
    t = HexaryTrie(backing, prune=True)
    outs = []
    m = {}
    bad = None
    stats = {"shared": 0, "batch": 0}
    rr = random.Random(int(C.case_key(ops)[:8], 16))
    for op in ops:
        if m and rr.random() < 0.12:
            # a call the API refuses (ill-typed value under a key that would split an existing node) is part of "modified only
            # through its own API": it must leave the database exact (not part of the model's history: it has no effect)
            k = rr.choice(sorted(m))
            k2 = (k[:-1] + bytes([k[-1] ^ 0x01])) if k else b"\x05"
            try:
                t.set(k2, rr.choice([None, "text", 7]))
                if bad is None:
                    bad = "an ill-typed value was accepted"
            except Exception as e:
                if type(e).__name__ != "ValidationError" and bad is None:
                    bad = f"an ill-typed value raised {type(e).__name__}"
            stats["refused"] = stats.get("refused", 0) + 1
        out = HX.step(t, op, backing)
        outs.append(out)
        if op[0] in ("set", "del"):
            if out is not None and bad is None:
                bad = f"write raised {out!r} on a complete database"
            HX.apply_model(m, op)
        elif op[0] == "batch":
            stats["batch"] += 1
            if op[2] is None:
                if out[1] is not None and bad is None:
                    bad = f"batch raised {out[1]!r}"
                for o in op[1]:
                    HX.apply_model(m, o)
        else:
            continue
        if bad is None:
            try:
                regen = {k: c for k, c in t.regenerate_ref_count().items() if c}
            except Exception as e:
                bad = f"a live node is missing from the database (regenerate_ref_count raised {type(e).__name__})"
                continue
            rc = {k: c for k, c in t._ref_count.items() if c}
            if max(regen.values(), default=0) >= 2:
                stats["shared"] += 1
            if set(backing) != set(regen):
                extra = set(backing) - set(regen)
                bad = ("a node that is no longer reachable was left in the database" if extra
                       else "a live node is missing from the database")
            elif rc != regen:
                bad = "reference counts differ from regenerate_ref_count()"
            else:
                for k, v in m.items():
                    try:
                        if t.get(k) != v:
                            bad = f"stored key {k.hex()} reads a wrong value"
                    except Exception as e:
                        bad = f"stored key {k.hex()} unreadable: {type(e).__name__}"
                    if bad:
                        break
    return outs, bad, stats, (t, backing)


def corpus():
    d2 = [("set", b"\x01" * 4, b"x" * 40, "meth"), ("state",), ("batch", [("set", b"\x02" * 4, b"y" * 40, "meth")], None), ("state",), ("regen",),
          ("set", b"\x03" * 4, b"z" * 40, "meth"), ("state",), ("regen",)]
    shared = [("set", b"\x00\x11", b"a" * 40, "meth"), ("set", b"\x10\x11", b"a" * 40, "meth"), ("state",), ("regen",),
              ("del", b"\x00\x11", "meth"), ("state",), ("regen",), ("del", b"\x10\x11", "meth"), ("state",), ("regen",)]
    short_root = [("set", b"\x01", b"v", "meth"), ("state",), ("regen",), ("set", b"\x01", b"w", "meth"), ("state",), ("regen",),
                  ("batch", [("set", b"\x02", b"x", "meth")], None), ("state",), ("regen",), ("del", b"\x01", "meth"), ("del", b"\x02", "meth"), ("state",)]
    # there and back inside nested blocks: the enclosing block dereferences an existing node, an inner block re-creates it
    tab = [("set", b"\x01\x01", b"a" * 40, "meth"), ("set", b"\x01\x02", b"b" * 40, "meth"), ("state",), ("regen",),
           ("batch", [("set", b"\x01\x01", b"z" * 40, "item"), ("batch", [("set", b"\x01\x01", b"a" * 40, "meth")], None),
                      ("get", b"\x01\x01", "meth")], None), ("state",), ("regen",),
           ("batch", [("del", b"\x01\x02", "meth"), ("batch", [("set", b"\x01\x02", b"b" * 40, "meth")], None)], None),
           ("state",), ("regen",), ("get", b"\x01\x01", "meth"), ("get", b"\x01\x02", "meth")]
    # an extension over a two-child branch (leaf + sub-branch): deleting the leaf's key collapses the branch onto an EXTENSION child
    extc = [("set", b"\x12\x00", b"a" * 40, "meth"), ("set", b"\x12\x10", b"b" * 40, "meth"), ("set", b"\x12\x11", b"c" * 40, "meth"),
            ("state",), ("regen",), ("del", b"\x12\x00", "meth"), ("state",), ("regen",), ("set", b"\x12\x10", b"d" * 40, "item"), ("state",), ("regen",),
            ("batch", [("set", b"\x12\x00", b"a" * 40, "meth"), ("del", b"\x12\x00", "item")], None), ("state",), ("regen",)]
    # twin sibling leaves, one removed (direct and in a block)
    V = b"V" * 40
    twins = [("set", b"\x12\x01", V, "meth"), ("set", b"\x12\x11", V, "meth"), ("state",), ("regen",), ("del", b"\x12\x01", "meth"), ("state",), ("regen",),
             ("set", b"\x12\x01", V, "item"), ("batch", [("del", b"\x12\x11", "meth")], None), ("state",), ("regen",)]
    return [d2, shared, short_root, tab, extc, twins]


def check(tier, seed):
    R = C.Reporter("C06", tier, seed)
    R.gate = C.proof_gate("C06")
    rng = random.Random(seed)
    n = 130 if tier == "quick" else 2000
    cases = corpus() + [gen_case(rng, tier) for _ in range(n)]
    runs, outs_list = [], []
    for ops in cases:
        outs, bad, stats, (t, backing) = run_and_check(ops)
        R.evaluations += 1
        R.count("with_shared_nodes", 1 if stats["shared"] else 0)
        R.count("batches", stats["batch"])
        if bad:
            small = C.shrink_list(ops, lambda o: run_and_check(o)[1] is not None)
            R.spec_violations.append((run_and_check(small)[1] or bad, {"prune": True, "ops": small}))
        if stats["shared"] and stats["batch"]:
            R.nontrivial.add(C.case_key(ops))
            if len(R.samples) < 2:
                R.samples.append(C.to_json({"ops": [o for o in ops if o[0] not in ("state", "regen")]}))
        runs.append((True, ops))
        outs_list.append(outs)
    shard = 8 if tier == "quick" else 30
    mism, errs, nsh, terms = HX.eval_hexary("C06", "cases", runs, outs_list, shard)
    R.shards, R.coq_errors = nsh, errs
    R.shards_ok = nsh - len(errs) - len({m // shard for m in mism})
    for m in mism[:3]:
        R.corr_mismatches.append(("impl≠model at pruning history (db / ref_count / regenerate_ref_count digests)", {"prune": True, "ops": cases[m]},
                                  {"impl": outs_list[m],
                                   "model": C.eval_show("C06", "cases", HX.IMPORTS, "hexary_run", "bool * list hop", terms[m])[-2500:]}))

    def search():
        r2 = random.Random(seed + 31)
        for _ in range(2500):
            ops = gen_case(r2, "thorough")
            _, bad, _, _ = run_and_check(ops)
            if bad:
                return bad, {"prune": True, "ops": ops}
        return None

    return R.finish(RULE, search=search,
                    partial_note="C06_exact / C06_exact_batched (counts = occurrence counts, db = exactly the live nodes, for every history with committed / "
                                 "aborted blocks) are proved; nested blocks and the explicit regenerate_ref_count() equality rest on this run's oracle")


def replay(payload):
    ops = [HX.tuplify(o) for o in payload["case"]["ops"]]
    _, bad, _, _ = run_and_check(ops)
    print("replay:", "VIOLATES: " + bad if bad else "holds")
    return 1 if bad else 0
