"""C02 — HexaryTrie root hash is the canonical Ethereum MPT root of its contents."""
import random

from .. import common as C
from .. import hexrun as HX
from ..common import cb, clist, cobs
from . import c01

IMPORTS_T = ("From Coq Require Import List NArith ZArith.\nFrom PyTrie.Base Require Import Bytes Result Nibbles Rlp.\n"
             "From PyTrie.Hexary Require Import Raw Tree TreeRun.")
RULE = ("histories as for C01 (direct / batched / mixed, prune on/off, prefix-related short keys and 20/32-byte pools, values across "
        "the 32-byte embedding threshold, a family with node RLP of exactly 31/32/33 bytes); at checkpoints the implementation's "
        "root_hash is compared, inside Coq, with (a) troot keccak256 of the tree-level run of the flattened history and (b) "
        "yp_root keccak256 of the mapping alone (the Yellow-Paper specification); each final mapping is also re-inserted in 3 random "
        "orders with overwrite/delete noise on the implementation; deletes on copies of the database lacking one node must raise or "
        "give the canonical root. non-trivial = final mapping has >= 3 keys incl. a prefix pair "
        "or a hashed child")


def threshold_history(rng):
    """values chosen so that a leaf's RLP is exactly 31 / 32 / 33 bytes under a branch"""
    ops = []
    klen = rng.choice([1, 2, 3])
    base = bytes(rng.choice(HX.ALPHA) for _ in range(klen))
    for last in rng.sample(range(256), 3):
        k = base + bytes([last])
        # leaf = [HP(rest), value]; rest is 1 nibble after the branch -> 1 byte key part; rlp = 1 + 1 + (1 + n) for n < 56
        n = rng.choice([27, 28, 29, 30])
        ops.append(("set", k, bytes([rng.choice(HX.VALBYTES)]) * n, "meth"))
        ops.append(("state",))
    return {"prune": rng.random() < 0.5, "ops": ops, "mode": "threshold"}


def flatten_checkpoints(ops, outs):
    """[(flattened committed writes so far, mapping, root)] at every ('state',) op"""
    writes, m, cps = [], {}, []
    for op, out in zip(ops, outs):
        if op[0] in ("set", "del"):
            writes.append(op)
            HX.apply_model(m, op)
        elif op[0] == "batch" and op[2] is None:
            for o in HX.flatten_writes(op[1]):
                writes.append(o)
                HX.apply_model(m, o)
        elif op[0] == "state":
            cps.append((list(writes), dict(m), out[0]))
    return cps


def t_case(writes, root):
    body = clist([f"({cb(w[1])}, {'None' if w[0] == 'del' else '(Some ' + cb(w[2]) + ')'})" for w in writes])
    return f"({body}, {cobs(root)})"


def yp_case(m, root):
    body = clist([f"({cb(k)}, {cb(v)})" for k, v in sorted(m.items())])
    return f"({body}, {cobs(root)})"


def reorder_check(rng, m, root):
    """order / noise independence on the implementation itself"""
    try:
        return reorder_check_(rng, m, root)
    except Exception as e:
        return f"re-inserting the same mapping in another order (with overwrite / delete noise) raised {type(e).__name__} on a complete database"


def reorder_check_(rng, m, root):
    from trie import HexaryTrie
    from trie.constants import BLANK_NODE_HASH
    items = list(m.items())
    for i in range(3):
        rng.shuffle(items)
        t = HexaryTrie({}, prune=(i == 1))
        noise_keys = []
        for k, v in items:
            if rng.random() < 0.3:
                nk = HX.gen_key(rng)
                if nk not in m:
                    t[nk] = HX.gen_value(rng)
                    noise_keys.append(nk)
            if rng.random() < 0.3:
                t[k] = b"tmp" * rng.randint(1, 15)
            t[k] = v
        for nk in noise_keys:
            del t[nk]
        if t.root_hash != root:
            return f"root depends on history: permutation {i} of the same mapping gives another root"
        if i == 2:
            for k, _ in items:
                t.delete(k)
            if t.root_hash != BLANK_NODE_HASH:
                return "emptied trie does not have the blank root"
    return None


def incomplete_db_check(rng, m, backing, root):
    """The root must be canonical after EVERY operation that succeeds - also on a database from which node bodies are missing
    (a partially synced database): a write there either raises or gives the root of the resulting mapping."""
    from trie import HexaryTrie
    hashed = [h for h in HX.reachable(backing, root) if h != root]
    if not hashed or len(m) < 2:
        return None
    for h in rng.sample(hashed, min(4, len(hashed))):
        for k in list(m)[:6]:
            db = {a: b for a, b in backing.items() if a != h}
            t = HexaryTrie(db, root)
            try:
                t.delete(k)
            except Exception:
                continue
            ref = HexaryTrie({})
            for k2, v2 in m.items():
                if k2 != k:
                    ref[k2] = v2
            if t.root_hash != ref.root_hash:
                return (f"delete({k.hex()}) succeeded on a database lacking node {h.hex()[:12]} but the root is not the canonical root of the "
                        "remaining mapping")
    return None


def nontrivial(m, kinds):
    ks = sorted(m)
    pref = any(a != b and b.startswith(a) for a in ks for b in ks)
    return len(ks) >= 3 and (pref or kinds["hashed_child"] > 1)


def check(tier, seed):
    R = C.Reporter("C02", tier, seed)
    R.gate = C.proof_gate("C02")
    rng = random.Random(seed)
    n = 120 if tier == "quick" else 2000
    cases = c01.corpus() + [c01.gen_history(rng, tier) for _ in range(n)] + [threshold_history(rng) for _ in range(n // 6)]
    t_terms, yp_terms, where = [], [], []
    for ci, case in enumerate(cases):
        outs, t, backing = HX.run_history(case["prune"], case["ops"])
        R.evaluations += 1
        R.count(f"mode_{case['mode']}_prune_{int(case['prune'])}")
        cps = flatten_checkpoints(case["ops"], outs)
        if not cps:
            continue
        pick = cps if tier == "thorough" else ([cps[-1]] + rng.sample(cps[:-1], min(2, len(cps) - 1)))
        for writes, m, root in pick:
            t_terms.append(t_case(writes, root))
            yp_terms.append(yp_case(m, root))
            where.append((ci, len(writes)))
        writes, m, root = cps[-1]
        bad = reorder_check(rng, m, root)
        if bad:
            R.spec_violations.append((bad, {"prune": case["prune"], "ops": case["ops"]}))
        bad = incomplete_db_check(rng, m, backing, bytes(t.root_hash)) if not case["prune"] else None
        if bad:
            R.spec_violations.append((bad, {"prune": case["prune"], "ops": case["ops"], "incomplete": True}))
        kinds = HX.classify_trie(backing, t.root_hash)
        for kk, vv in kinds.items():
            R.count("final_" + kk, vv)
        if nontrivial(m, kinds):
            R.nontrivial.add(C.case_key(sorted(m.items())))
            if len(R.samples) < 2:
                R.samples.append(C.to_json({"mapping": sorted(m.items()), "root": root}))
    shard = 12 if tier == "quick" else 40
    mt, et, n1 = C.eval_cases("C02", "tlevel", IMPORTS_T, "c02_T_run", "list (bytes * option bytes)", t_terms, shard=shard)
    my, ey, n2 = C.eval_cases("C02", "yp", IMPORTS_T, "c02_yp_run", "list (bytes * bytes)", yp_terms, shard=shard)
    R.shards, R.coq_errors = n1 + n2, et + ey
    R.shards_ok = R.shards - len(et) - len(ey) - len({m // shard for m in mt}) - len({m // shard for m in my})
    for m in my[:3]:
        ci, nw = where[m]
        R.spec_violations.append(("root_hash differs from the Yellow-Paper root (yp_root keccak256, evaluated in Coq) of the current mapping",
                                  {"prune": cases[ci]["prune"], "ops": cases[ci]["ops"], "after_writes": nw}))
    for m in mt[:3]:
        ci, nw = where[m]
        R.corr_mismatches.append(("impl root ≠ troot keccak256 (tree-level run)", {"prune": cases[ci]["prune"], "ops": cases[ci]["ops"],
                                                                                  "after_writes": nw}, {}))

    def search():
        r2 = random.Random(seed + 13)
        for _ in range(400):
            c = c01.gen_history(r2, "thorough")
            outs, t, backing = HX.run_history(c["prune"], c["ops"])
            cps = flatten_checkpoints(c["ops"], outs)
            if cps:
                bad = reorder_check(r2, cps[-1][1], cps[-1][2])
                if bad:
                    return bad, {"prune": c["prune"], "ops": c["ops"]}
        return None

    return R.finish(RULE, search=search,
                    partial_note="tree-level statements and the database-level link (C02_D, C02_D_batched) are proved; nested blocks and the "
                                 "canonical root after writes on an incomplete database rest on this run's oracle: impl root = troot keccak256 "
                                 "(T-level run) = yp_root keccak256 (mapping), evaluated in Coq")


def replay(payload):
    case = payload["case"]
    ops = [c01.tuplify(o) for o in case["ops"]]
    outs, t, backing = HX.run_history(case["prune"], ops)
    cps = flatten_checkpoints(ops, outs)
    terms = [yp_case(m, root) for _, m, root in cps]
    my, ey, _ = C.eval_cases("C02", "replay", IMPORTS_T, "c02_yp_run", "list (bytes * bytes)", terms, shard=50)
    bad = reorder_check(random.Random(1), cps[-1][1], cps[-1][2]) if cps else None
    if cps and not bad and case.get("incomplete"):
        bad = incomplete_db_check(random.Random(1), cps[-1][1], backing, bytes(t.root_hash))
    if my or ey:
        bad = f"root differs from yp_root at checkpoints {my} {ey[:1]}"
    print("replay:", "VIOLATES: " + bad if bad else "holds")
    return 1 if bad else 0
